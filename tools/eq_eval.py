#!/usr/bin/env python3
"""False-alarm test: apply behaviour-preserving refactorings (patch.diff) to a scratch worktree and run every quick
check against it; every check must stay HELD (exit 0)."""
import json, os, re, shutil, subprocess, sys
VERIF = os.path.dirname(os.path.dirname(os.path.abspath(__file__)))
def sh(cmd, **kw):
    return subprocess.run(cmd, shell=True, stdout=subprocess.PIPE, stderr=subprocess.STDOUT, text=True, timeout=6000, **kw)
src = sys.argv[1]
only = sys.argv[2:]
out = {}
for d in sorted(os.listdir(src)):
    p = os.path.join(src, d, "patch.diff")
    if not os.path.exists(p) or (only and d not in only):
        continue
    wt = "/tmp/eqwt.%d" % os.getpid()
    sh("git -C /repo worktree remove --force %s" % wt)
    sh("git -C /repo worktree add -q --detach %s HEAD" % wt)
    try:
        if sh("git apply %s" % p, cwd=wt).returncode:
            print(d, "patch does not apply"); continue
        tests = sh("/venv/bin/python -B -m pytest -q -p no:cacheprovider tests 2>&1 | tail -1", cwd=wt).stdout.strip()
        res = {}
        for i in range(1, 21):
            pid = "C%02d" % i
            r = sh("%s/check %s --tier quick --repo %s" % (VERIF, pid, wt))
            if r.returncode != 0:
                res[pid] = {"exit": r.returncode, "classes": re.findall(r"class=(\S+)", r.stdout)[:4], "tail": r.stdout.strip().splitlines()[-1][:200]}
        out[d] = {"tests": tests, "alarms": res}
        print(d, tests, "ALARMS:" if res else "all 20 checks held", json.dumps(res)[:600] if res else "", flush=True)
    finally:
        sh("git -C /repo worktree remove --force %s" % wt); shutil.rmtree(wt, ignore_errors=True)
json.dump(out, open(os.path.join(VERIF, "seeded", os.path.basename(src.rstrip("/")) + "_results.json"), "w"), indent=1)
