#!/usr/bin/env python3
"""Evaluate sub-agent mutants (patch.diff + demo.py + notes.md) and keep the
confirmed ones under /verif/seeded/<id>/.

    tools/seed_eval.py <src dir, e.g. /tmp/wt_out> [Cxx ...]   evaluate what is new
    tools/seed_eval.py --recheck [ids...]                       re-run the checks on kept mutants

A mutant is kept only after this script has confirmed, in a scratch worktree of
/repo (removed afterwards): the patch applies, the baseline tests still pass
(160 passed), the demonstration exits 1 with the change and 0 without.
"""
import json
import os
import re
import shutil
import subprocess
import sys

VERIF = os.path.dirname(os.path.dirname(os.path.abspath(__file__)))
SEEDED = os.path.join(VERIF, "seeded")

# extra properties whose checks are expected to notice a break of the given one
ALSO = {
    "C01": ["C02", "C03", "C16"], "C02": ["C01", "C16", "C18"], "C03": ["C01", "C16"], "C16": ["C02", "C03"], "C18": ["C02", "C04"],
    "C05": ["C06", "C02", "C16"], "C06": ["C05", "C14", "C02", "C16"], "C12": ["C13"], "C13": ["C12"], "C10": ["C11"], "C11": ["C10"], "C07": ["C08"], "C08": ["C07"],
}


def sh(cmd, **kw):
    kw.setdefault("timeout", 3000)
    return subprocess.run(cmd, shell=True, stdout=subprocess.PIPE, stderr=subprocess.STDOUT, text=True, **kw)


def run_checks(wt, props, tier="quick"):
    out = {}
    for p in props:
        r = sh("%s/check %s --tier %s --repo %s" % (VERIF, p, tier, wt))
        viol = [ln for ln in r.stdout.splitlines() if ln.startswith("VIOLATION")]
        classes = re.findall(r"class=(\S+)", r.stdout)
        out[p] = {"exit": r.returncode, "violation_lines": len(viol), "classes": classes[:6], "summary": r.stdout.strip().splitlines()[-1][:300] if r.stdout.strip() else ""}
    return out


def evaluate(mdir, prop, ident, full=False):
    wt = "/tmp/evalwt.%d" % os.getpid()
    sh("git -C /repo worktree remove --force %s" % wt)
    r = sh("git -C /repo worktree add -q --detach %s HEAD" % wt)
    if r.returncode:
        return {"error": r.stdout}
    try:
        demo = os.path.join(mdir, "demo.py")
        clean = sh("/venv/bin/python -B %s" % demo, cwd=wt).returncode
        ap = sh("git apply %s" % os.path.join(mdir, "patch.diff"), cwd=wt)
        if ap.returncode:
            return {"error": "patch does not apply: " + ap.stdout[:300]}
        tests = sh("/venv/bin/python -B -m pytest -q -p no:cacheprovider tests 2>&1 | tail -1", cwd=wt).stdout.strip()
        mut = sh("/venv/bin/python -B %s" % demo, cwd=wt)
        res = {"demo_clean_exit": clean, "demo_mutant_exit": mut.returncode, "tests": tests, "demo_output": mut.stdout[-600:]}
        res["confirmed"] = clean == 0 and mut.returncode == 1 and "160 passed" in tests and "3 failed" in tests
        props = [prop] + (ALSO.get(prop, []) if full else [])
        res["checks"] = run_checks(wt, props)
        return res
    finally:
        sh("git -C /repo worktree remove --force %s" % wt)
        shutil.rmtree(wt, ignore_errors=True)


def keep(mdir, prop, ident, res):
    d = os.path.join(SEEDED, ident)
    os.makedirs(d, exist_ok=True)
    shutil.copy(os.path.join(mdir, "patch.diff"), os.path.join(d, "patch.diff"))
    shutil.copy(os.path.join(mdir, "demo.py"), os.path.join(d, "demo.py"))
    notes = ""
    if os.path.exists(os.path.join(mdir, "notes.md")):
        notes = open(os.path.join(mdir, "notes.md")).read().strip()
    caught = sorted(p for p, c in res["checks"].items() if c["exit"] == 1 and c["violation_lines"])
    meta = {
        "id": ident,
        "property": prop,
        "source": "independent sub-agent given only the property text and a scratch worktree",
        "needs_to_manifest": notes,
        "confirmed": {k: res[k] for k in ("demo_clean_exit", "demo_mutant_exit", "tests")},
        "what_i_ran": "tools/seed_eval.py: scratch worktree of /repo, git apply patch.diff, baseline pytest (160 passed), demo.py with/without the change, then ./check <P> --tier quick --repo <worktree>",
        "checks": res["checks"],
        "caught_by": caught,
    }
    with open(os.path.join(d, "meta.json"), "w") as fh:
        json.dump(meta, fh, indent=1)
    return caught


def main(argv):
    if argv and argv[0] in ("--recheck", "--recheck-own"):
        own_only = argv[0] == "--recheck-own"
        ids = argv[1:] or sorted(x for x in os.listdir(SEEDED) if os.path.exists(os.path.join(SEEDED, x, "meta.json")))
        for ident in ids:
            d = os.path.join(SEEDED, ident)
            meta = json.load(open(os.path.join(d, "meta.json")))
            res = evaluate(d, meta["property"], ident, full=not own_only)
            if "error" in res:
                print(ident, "ERROR", res["error"])
                continue
            if own_only:
                merged = dict(meta.get("checks", {}))
                merged.update(res["checks"])
                res["checks"] = merged
            meta["checks"] = res["checks"]
            meta["caught_by"] = sorted(p for p, c in res["checks"].items() if c["exit"] == 1 and c["violation_lines"])
            meta["confirmed"] = {k: res[k] for k in ("demo_clean_exit", "demo_mutant_exit", "tests")}
            json.dump(meta, open(os.path.join(d, "meta.json"), "w"), indent=1)
            print(ident, "caught_by", meta["caught_by"], "own:", res["checks"][meta["property"]]["classes"][:2])
        return
    src = argv[0]
    want = argv[1:]
    for prop in sorted(os.listdir(src)):
        if not re.match(r"C\d\d$", prop) or (want and prop not in want):
            continue
        for m in sorted(os.listdir(os.path.join(src, prop))):
            mdir = os.path.join(src, prop, m)
            if not os.path.exists(os.path.join(mdir, "patch.diff")) or not os.path.exists(os.path.join(mdir, "demo.py")):
                continue
            ident = "%s-%s" % (prop, m)
            if os.path.exists(os.path.join(SEEDED, ident, "meta.json")):
                continue
            res = evaluate(mdir, prop, ident)
            if "error" in res:
                print(ident, "ERROR", res["error"])
                continue
            if not res["confirmed"]:
                print(ident, "NOT CONFIRMED", {k: res[k] for k in ("demo_clean_exit", "demo_mutant_exit", "tests")})
                continue
            caught = keep(mdir, prop, ident, res)
            print(ident, "kept; caught_by", caught, res["checks"][prop]["classes"][:2], "" if caught else "  <-- MISSED")


if __name__ == "__main__":
    main(sys.argv[1:])
