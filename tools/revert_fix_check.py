#!/usr/bin/env python3
"""For every 'fix:' commit in /repo: revert it in a scratch worktree and confirm that the check of the
property it repaired reports the violation again (a fixed entry suppresses nothing)."""
import json
import os
import re
import shutil
import subprocess
import sys

VERIF = os.path.dirname(os.path.dirname(os.path.abspath(__file__)))


def sh(cmd, **kw):
    return subprocess.run(cmd, shell=True, stdout=subprocess.PIPE, stderr=subprocess.STDOUT, text=True, timeout=3000, **kw)


def main():
    known = json.load(open(os.path.join(VERIF, "known_findings.json")))["findings"]
    fixed = [f for f in known if f.get("status") == "fixed"]
    out = []
    for f in fixed:
        wt = "/tmp/revwt.%d" % os.getpid()
        sh("git -C /repo worktree remove --force %s" % wt)
        sh("git -C /repo worktree add -q --detach %s HEAD" % wt)
        try:
            r = sh("git revert --no-commit %s" % f["commit"], cwd=wt)
            if r.returncode:
                print(f["commit"], "revert failed", r.stdout[:200])
                continue
            c = sh("%s/check %s --tier quick --repo %s" % (VERIF, f["property"], wt))
            classes = re.findall(r"class=(\S+)", c.stdout)
            ok = c.returncode == 1 and bool(classes)
            out.append({"property": f["property"], "commit": f["commit"], "reverted_detected": ok, "classes": classes[:4]})
            print(f["property"], f["commit"], "DETECTED" if ok else "MISSED", classes[:3])
        finally:
            sh("git -C /repo worktree remove --force %s" % wt)
            shutil.rmtree(wt, ignore_errors=True)
    json.dump(out, open(os.path.join(VERIF, "seeded", "fix_reverts.json"), "w"), indent=1)


if __name__ == "__main__":
    main()
