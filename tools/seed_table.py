#!/usr/bin/env python3
"""Regenerates section 11 of DESIGN.md from seeded/*/meta.json and seeded/fix_reverts.json."""
import json
import os
import re

VERIF = os.path.dirname(os.path.dirname(os.path.abspath(__file__)))
rows = []
for d in sorted(os.listdir(os.path.join(VERIF, "seeded"))):
    mp = os.path.join(VERIF, "seeded", d, "meta.json")
    if not os.path.exists(mp):
        continue
    m = json.load(open(mp))
    notes = m.get("needs_to_manifest", "").replace("\n", " ").replace("|", "/")
    notes = re.sub(r"\s+", " ", notes)[:260]
    own = m["checks"].get(m["property"], {})
    cls = ", ".join("`%s`" % c for c in own.get("classes", [])[:2]) or "–"
    others = [p for p in m.get("caught_by", []) if p != m["property"]]
    rows.append("| %s | %s | %s | %s | %s |" % (d, notes, "**yes**" if m["property"] in m.get("caught_by", []) else "NO", cls, ", ".join(others) or "–"))
text = []
text.append("Sixty changes were written by independent sub-agents, each given only the text of one property and a scratch")
text.append("worktree of /repo (nothing from /verif).  A change is kept under `seeded/<id>/` only after `tools/seed_eval.py` confirmed in a")
text.append("fresh scratch worktree that the patch applies, the 160 baseline tests still pass and the demonstration exits 1 with / 0")
text.append("without the change; then the property's quick check (and related ones) is run with `--repo <worktree>`.")
text.append("The first evaluation caught 43 of 60; the 17 misses (value-semantics node classes, stale memos only visible on re-used")
text.append("objects, re-entrant hooks, deep spines, falsy constructor parents, wildcard characters in names, `None`/unhashable search")
text.append("values, predicates changing between two iterations of one exporter, library spins / unexpected exceptions) led to the")
text.append("additions of §9; the table shows the state after them.")
text.append("")
text.append("| change | what it is / what it needs to manifest (from the author's notes) | caught by own check | witness classes | also caught by |")
text.append("|--------|------|------|------|------|")
text += rows
rv = os.path.join(VERIF, "seeded", "fix_reverts.json")
if os.path.exists(rv):
    text.append("")
    text.append("Reverting each `fix:` commit in a scratch worktree (`tools/revert_fix_check.py`) is re-detected by the check of the repaired property:")
    text.append("")
    text.append("| property | reverted commit | detected | witness classes |")
    text.append("|----|----|----|----|")
    for r in json.load(open(rv)):
        text.append("| %s | `%s` | %s | %s |" % (r["property"], r["commit"], "yes" if r["reverted_detected"] else "NO", ", ".join("`%s`" % c for c in r["classes"][:2])))
p = os.path.join(VERIF, "DESIGN.md")
s = open(p).read()
i = s.index("## 11. Seeded changes and which checks catch them")
s = s[:i] + "## 11. Seeded changes and which checks catch them\n\n" + "\n".join(text) + "\n"
open(p, "w").write(s)
print("section 11 rewritten: %d seeded changes" % len(rows))
