#!/usr/bin/env python3
"""Regenerates section 11 of DESIGN.md from seeded/*/meta.json and seeded/fix_reverts.json."""
import json
import os
import re

VERIF = os.path.dirname(os.path.dirname(os.path.abspath(__file__)))
rows = []
for d in sorted(os.listdir(os.path.join(VERIF, "seeded"))):
    mp = os.path.join(VERIF, "seeded", d, "meta.json")
    if not os.path.exists(mp):
        continue
    m = json.load(open(mp))
    notes = m.get("needs_to_manifest", "").replace("\n", " ").replace("|", "/")
    notes = re.sub(r"\s+", " ", notes)[:260]
    own = m["checks"].get(m["property"], {})
    cls = ", ".join("`%s`" % c for c in own.get("classes", [])[:2]) or "–"
    others = [p for p in m.get("caught_by", []) if p != m["property"]]
    rows.append("| %s | %s | %s | %s | %s |" % (d, notes, "**yes**" if m["property"] in m.get("caught_by", []) else "NO", cls, ", ".join(others) or "–"))
text = []
text.append("580 changes were written in ten rounds by independent sub-agents, each given only the text of one property and a")
text.append("scratch worktree of /repo (nothing from /verif).  Round 1 asked for three subtle test-surviving changes per property; round 2 for")
text.append("one change each of the styles *state across calls*, *rare argument / class / option*, *cooperating sites or failure path*; round 3 for")
text.append("*one copy / one class only*, *feature interaction* and *sneakiest*; round 4 for *indirect* (anchor files untouched), *data dependent*")
text.append("and *order dependent*; round 5 for changes disguised as a *refactoring* (15-60 lines with one semantic slip), a *performance")
text.append("optimisation* and a *robustness / compatibility fix*; round 6 for *configuration / mode dependent*, *modernisation* (py3 idioms with one")
text.append("non-equivalent rewrite) and *wildcard*; round 7 for a *feature addition* whose plumbing changes existing calls, a *bug-fix regression*")
text.append("(an invented report fixed in a hurry) and an *indirect / cross-module* change (shared helper or two harmless-alone edits); round 8 for")
text.append("*scalar arguments: boundary and type*, *error path only* and *laziness, aliasing and timing*; round 9 for *hardening / sanitising*,")
text.append("*diagnostics* (logging, richer messages, eager repr) and *resources and process-wide state*; round 10 (two per property) for *scale dependent* and *subclass / protocol interplay*.")
text.append("A change is kept under `seeded/<id>/` only after `tools/seed_eval.py` confirmed in a fresh scratch worktree")
text.append("that the patch applies, the 160 baseline tests still pass and the demonstration exits 1 with / 0 without the change; then the")
text.append("property's quick check (and related ones) is run with `--repo <worktree>`.")
text.append("")
text.append("First-evaluation results (own property check): round 1 caught 43 of 60, round 2 53 of 60, round 3 59 of 60, round 4 54 of 60, round 5 59 of 60,")
text.append("round 7 42 of 60, round 8 40 of 60 and round 9 38 of 60 (all three evaluated blind; in round 9 two of the 38 were caught by the deep-chain workload that was added while the evaluation of the structural properties was still running).  Round 6 was not evaluated blind: its authors' notes were read first, about 17 misses were predicted")
text.append("from them and the machinery was strengthened before the first run, which then caught 58 of 60.")
text.append("Every miss was analysed and led to the additions of section 9 (value-semantics / falsy node classes, stale memos only visible on")
text.append("re-used objects, restricted re-entrant hooks, deep spines, falsy constructor parents, wildcard characters in names, `None` /")
text.append("unhashable / NaN / tuple values, exporter / resolver / RenderTree / predicate objects re-used across changes and aborted calls,")
text.append("library spins and unexpected exceptions as witnesses, observer-effect-free calls on fresh nodes, recording hooks that chain to")
text.append("hooks defined by library classes, histories that report a forest left inconsistent; rounds 6-8: sections 9.4c - 9.4e).  The table shows the state after them:")
text.append("566 of 580 are caught by the check of their own property (round 10: 20 of 40 at first, 33 of 40 after the additions of section 9.4g, which also explains its 7 misses).  Deliberately not covered, because what they need lies outside the property")
text.append("statements: `C06-m6` (an iterator object re-used after its `stop` callback raised on the very first `next()`), `C06-m22` and `C13-m22`")
text.append("(a *float* `maxlevel` such as `2.0`; the documented type is int - int subclasses such as bool / IntEnum-like values are covered),")
text.append("`C05-m24` (the consumer attaches children to the node it has just received, i.e. the tree changes *during* one iteration) and `C04-m23`")
text.append("(a NodeMixin node attached below a LightNodeMixin node: mixed trees cannot be built with the unchanged library either, see section 7.3);")
text.append("`C01-m26`, `C03-m26` and `C16-m26` (diagnostic code that formats a node with `%r` in the middle of a structural call) need a user")
text.append("`__repr__` that raises for detached nodes (or warnings turned into errors): with such a class the refusals of the *unchanged* library,")
text.append("whose messages format the node as well, already raise the repr's exception instead of TreeError / LoopError, so the exception clauses")
text.append("cannot be judged for it; a repr that only fails while the two link directions disagree is covered (`ReprLM`, section 9.4f).")
text.append("")
text.append("False-alarm test: fifteen behaviour-preserving refactorings written by another independent sub-agent (given all twenty property")
text.append("texts; `seeded/equivalent/e01..e15`: non-recursive iterators, in-place detach by identity, restructured loop/duplicate checks,")
text.append("re-implemented navigation attributes, Resolver get/glob/cache rewrites, RenderTree without recursion, Walker by index arithmetic,")
text.append("non-recursive dict export/import, attribute insertion order of `Node` changed, DOT/Mermaid edge statements emitted in another order,")
text.append("escaping by `str.replace`, ...) and twelve more aggressive ones (`seeded/equivalent2/f01..f12`: memoised `path`/`height` with correct")
text.append("invalidation, children stored in an id-keyed dict, both mixins sharing one implementation module, renamed private attributes,")
text.append("merged detach/attach, all five iterators without recursion, DOT and Mermaid sharing one eager line builder, ...) were applied one at a")
text.append("time and all twenty quick checks run against each; a third set of twelve (`seeded/equivalent3/g01..g12`, written against the final machinery:")
text.append("py3-only clean-up of the whole package, `ANYTREE_ASSERTIONS` parsed by a helper module, assertion blocks turned into helpers, exception")
text.append("message factories, restructured symlink forwarding, constructors and `_repr`, exporter / importer option plumbing, a shared DOT/Mermaid")
text.append("utility module with an id-table class, search / walker / util plumbing, restructured iterator start-up, Resolver internals, RenderTree")
text.append("formatting) likewise.  On the final machinery: 39 refactorings x 20 checks = 780 runs with one alarm - C19 on `f02`, a false alarm of the")
text.append("machinery (recursion limit, see section 7.3), corrected, after which `f02` passes all twenty checks as well")
text.append("(`tools/eq_eval.py`, `seeded/equivalent_results.json`, `seeded/equivalent2_results.json`, `seeded/equivalent3_results.json`).  Over-strict oracles had been found and loosened before by such an")
text.append("experiment (key order of plain dicts in C10/C11; iterator-protocol details in C05; exact word order of the CountError message in C14).")
text.append("")
text.append("| change | what it is / what it needs to manifest (from the author's notes) | caught by own check | witness classes | also caught by |")
text.append("|--------|------|------|------|------|")
text += rows
rv = os.path.join(VERIF, "seeded", "fix_reverts.json")
if os.path.exists(rv):
    text.append("")
    text.append("Reverting each `fix:` commit in a scratch worktree (`tools/revert_fix_check.py`) is re-detected by the check of the repaired property:")
    text.append("")
    text.append("| property | reverted commit | detected | witness classes |")
    text.append("|----|----|----|----|")
    for r in json.load(open(rv)):
        text.append("| %s | `%s` | %s | %s |" % (r["property"], r["commit"], "yes" if r["reverted_detected"] else "NO", ", ".join("`%s`" % c for c in r["classes"][:2])))
p = os.path.join(VERIF, "DESIGN.md")
s = open(p).read()
i = s.index("## 11. Seeded changes and which checks catch them")
s = s[:i] + "## 11. Seeded changes and which checks catch them\n\n" + "\n".join(text) + "\n"
open(p, "w").write(s)
print("section 11 rewritten: %d seeded changes" % len(rows))
