#!/bin/sh
# tools/evalmutant.sh <dir with patch.diff + demo.py> <prop ids to run...>
# Applies the patch to a scratch worktree of /repo (outside /repo and /verif), confirms that the
# baseline tests still pass and that the demonstration fails with / passes without the change, then
# runs the given checks against the scratch tree.  Removes the worktree afterwards.
set -u
D="$(cd "$1" && pwd)"; shift
HERE="$(cd "$(dirname "$0")/.." && pwd)"
WT="/tmp/evalwt.$$"
git -C /repo worktree add -q --detach "$WT" HEAD || exit 3
trap 'git -C /repo worktree remove --force "$WT" >/dev/null 2>&1' EXIT
cd "$WT"
/venv/bin/python "$D/demo.py" >/dev/null 2>&1; CLEAN=$?
if ! git apply "$D/patch.diff" 2>/dev/null; then echo "RESULT $D patch=does-not-apply"; exit 3; fi
TESTS=$(/venv/bin/python -m pytest -q -p no:cacheprovider tests 2>&1 | tail -1)
/venv/bin/python "$D/demo.py" >/dev/null 2>&1; MUT=$?
find "$WT" -name __pycache__ -type d -prune -exec rm -rf {} + 2>/dev/null
OUT=""
for P in "$@"; do
  RES=$("$HERE/check" "$P" --tier "${TIER:-quick}" --repo "$WT" 2>&1)
  RC=$?
  N=$(printf '%s\n' "$RES" | grep -c '^VIOLATION')
  C=$(printf '%s\n' "$RES" | grep -m1 'class=' | sed 's/ occurrences.*//; s/.*class=//')
  OUT="$OUT $P:rc=$RC:viol=$N:$C"
done
echo "RESULT $D demo_clean=$CLEAN demo_mut=$MUT tests=[$TESTS] checks=[$OUT ]"
