"""Ambient use of the rest of the API - including calls that fail half way - on the node classes a
workload is about to use.  Nothing here is judged; whatever these calls leave behind in classes,
modules or objects of the library is the state the judged calls then run in."""
import io
import warnings


def _quiet(f, *a, **kw):
    try:
        return f(*a, **kw)
    except Exception:  # noqa: B902 - failing on purpose
        return None


def api_noise(classes):
    import anytree
    from anytree import AnyNode, Node, PreOrderIter, RenderTree, Resolver, Walker
    from anytree.exporter import DictExporter, DotExporter, JsonExporter, MermaidExporter, UniqueDotExporter
    from anytree.importer import DictImporter, JsonImporter
    from anytree import search, util

    done = 0
    for cls in list(classes) + [AnyNode, Node]:
        good = {"name": "r", "children": [{"name": "a", "children": [{"name": "a1"}]}, {"name": "b"}]}
        bad = [
            {"name": "r", "children": [{"name": "a"}, {"name": "b", "children": 5}]},  # not iterable, after a few nodes exist
            {"name": "r", "children": [{"name": "a", "children": [None]}]},  # a child that is no mapping
            {"name": "r", "children": [{"name": "a", "parent": 3}]},  # 'parent' passed twice
            {"children": [{"no": "name"}]},
        ]
        imp = DictImporter(nodecls=cls)
        root = _quiet(imp.import_, good)
        for d in bad:
            _quiet(imp.import_, d)
        _quiet(JsonImporter(dictimporter=imp).import_, '{"name": "r", "children": [{"name": "x", "children": 1}]}')
        _quiet(JsonImporter(dictimporter=imp).import_, "{not json")
        _quiet(JsonImporter(dictimporter=imp).read, io.StringIO(""))
        if root is None:
            continue
        done += 1
        kids = root.children
        # refused and failing structural calls
        for f in (lambda: setattr(root, "parent", root), lambda: setattr(root, "parent", kids[0]), lambda: setattr(root, "children", [kids[0], kids[0]]),
                  lambda: setattr(root, "children", 7), lambda: setattr(kids[0], "children", [root])):
            _quiet(f)
        r = Resolver("name")
        for pth in ("/r/a/a1", "a/../b", "/zz", "a/zz", "*/*", "**", "../.."):
            _quiet(r.get, root, pth)
            _quiet(r.glob, root, pth)
        _quiet(Resolver("nosuch", relax=True).glob, root, "*")
        _quiet(lambda: [row for row in RenderTree(root, maxlevel=2)])
        _quiet(lambda: RenderTree(root).by_attr(lambda n: 1 / 0))
        _quiet(lambda: list(PreOrderIter(root, filter_=lambda n: 1 / 0)))
        _quiet(lambda: list(PreOrderIter(root, stop=lambda n: n.name == "a", maxlevel=2)))
        _quiet(Walker().walk, root, cls(name="other") if cls in (AnyNode,) else root)
        _quiet(search.find, root, lambda n: True)  # CountError: several matches
        _quiet(search.findall, root, lambda n: True, mincount=10)
        _quiet(util.commonancestors, root, kids[0])
        _quiet(DictExporter(attriter=lambda attrs: 1 / 0).export, root)
        _quiet(DictExporter(maxlevel=1).export, root)
        _quiet(JsonExporter(maxlevel=1, default=lambda o: 1 / 0).export, root)
        _quiet(lambda: list(DotExporter(root, nodenamefunc=lambda n: 1 / 0)))
        _quiet(lambda: list(UniqueDotExporter(root, maxlevel=1)))
        _quiet(lambda: list(MermaidExporter(root, stop=lambda n: 1 / 0)))
        with warnings.catch_warnings():
            warnings.simplefilter("ignore")
            _quiet(lambda: list(anytree.dotexport.RenderTreeGraph(root)))
    return done
