"""Executable reference model of the structural operations (C02, C16) and a
step-by-step mirror of the *current* implementation (``as_implemented``) that
is used only to recognise the known C03 mechanisms exactly.

State: ``ch`` = tuple of tuples (ordered children per label).  Calls:

    ("setparent", n, p)            p: label | None | ("nonnode", kind)
    ("delchildren", n)
    ("setchildren", n, xs, itkind) xs: tuple of label | ("nonnode", kind);
                                   itkind: list|tuple|gen|iter|noniter

Outcome classes: ok, noop, TreeError, LoopError, TypeError.
Hook events: (kind, node_label, arg) with arg a label or a tuple of labels.
"""
from .gen import parents_of


def is_nonnode(x):
    return isinstance(x, (tuple, list)) and len(x) == 2 and x[0] == "nonnode"


def ancestors_or_self(par, n):
    out = []
    while n is not None:
        out.append(n)
        n = par[n]
    return out


def invariant(snap):
    """Forest invariant I over a snapshot {label: (parent, children)}; returns
    a list of problem strings (empty = holds).  Snapshot entries may contain
    ("F", ...) markers for foreign objects."""
    probs = []
    k = len(snap)
    for n in range(k):
        p, cs = snap[n]
        if isinstance(p, tuple):
            probs.append("node %d has foreign parent %r" % (n, p))
        seen = set()
        for c in cs:
            if isinstance(c, tuple):
                probs.append("node %d lists foreign child %r" % (n, c))
                continue
            if c in seen:
                probs.append("node %d lists child %d twice" % (n, c))
            seen.add(c)
            if snap[c][0] != n:
                probs.append("%d in children(%d) but parent(%d)=%r" % (c, n, c, snap[c][0]))
        if p is not None and not isinstance(p, tuple):
            if n not in snap[p][1]:
                probs.append("parent(%d)=%d but %d not in children(%d)" % (n, p, n, p))
    for n in range(k):
        steps = 0
        x = n
        while x is not None and not isinstance(x, tuple):
            x = snap[x][0]
            steps += 1
            if steps > k:
                probs.append("parent chain from %d does not end (cycle)" % n)
                break
    return probs


def snap_of(ch):
    par = parents_of(ch)
    return tuple((par[i], tuple(ch[i])) for i in range(len(ch)))


def ch_of(snap):
    return tuple(tuple(cs) for _, cs in snap)


# ------------------------------------------------------------------ model
def model_call(ch, call, family="NM"):
    """Reference semantics.  Returns (outcome, new_ch, expected_hook_log).

    For refused calls new_ch == ch and the log is None (what a refused
    children assignment fires is not part of any statement)."""
    k = len(ch)
    par = parents_of(ch)
    op = call[0]
    if op == "setparent":
        _, n, p = call
        if is_nonnode(p):
            if family == "NM":
                return "TreeError", ch, []
            return "unspecified", ch, None
        if p == par[n]:
            return "noop", ch, []
        if p is not None and n in ancestors_or_self(par, p):
            return "LoopError", ch, []
        new = [list(c) for c in ch]
        log = []
        old = par[n]
        if old is not None:
            new[old].remove(n)
            log += [("pre_detach", n, old), ("post_detach", n, old)]
        if p is not None:
            new[p].append(n)
            log += [("pre_attach", n, p), ("post_attach", n, p)]
        return "ok", tuple(tuple(c) for c in new), log
    if op == "delchildren":
        _, n = call
        former = tuple(ch[n])
        new = [list(c) for c in ch]
        new[n] = []
        log = [("pre_detach_children", n, former)]
        for c in former:
            log += [("pre_detach", c, n), ("post_detach", c, n)]
        log.append(("post_detach_children", n, former))
        return "ok", tuple(tuple(c) for c in new), log
    if op == "setchildren":
        _, n, xs, itkind = call
        if itkind == "noniter":
            return "TypeError", ch, None
        nonnodes = [x for x in xs if is_nonnode(x)]
        if nonnodes and family != "NM":
            return "unspecified", ch, None
        # TreeError first: non-node member or a child listed twice
        if nonnodes:
            return "TreeError", ch, None
        if len(set(xs)) != len(xs):
            return "TreeError", ch, None
        anc = ancestors_or_self(par, n)
        if any(x in anc for x in xs):
            return "LoopError", ch, None
        former = tuple(ch[n])
        new = [list(c) for c in ch]
        curpar = list(par)
        log = [("pre_detach_children", n, former)]
        for c in former:
            log += [("pre_detach", c, n), ("post_detach", c, n)]
            curpar[c] = None
        new[n] = []
        log.append(("post_detach_children", n, former))
        log.append(("pre_attach_children", n, tuple(xs)))
        for x in xs:
            old = curpar[x]
            if old is not None:
                new[old].remove(x)
                log += [("pre_detach", x, old), ("post_detach", x, old)]
            new[n].append(x)
            curpar[x] = n
            log += [("pre_attach", x, n), ("post_attach", x, n)]
        log.append(("post_attach_children", n, tuple(xs)))
        return "ok", tuple(tuple(c) for c in new), log
    raise ValueError(call)


# --------------------------------------------------------- as_implemented
class SimInjected(Exception):
    pass


class SimRefused(Exception):
    def __init__(self, cls):
        Exception.__init__(self, cls)
        self.cls = cls


class SimRecursion(Exception):
    pass


class Sim:
    """Mirror of nodemixin.py's parent setter / children setter / deleter as
    they are *now*, driven by the same fault plan as the real run.  Only used
    to predict the exact defective post-state of known C03 mechanisms."""

    MAXDEPTH = 40

    def __init__(self, ch, plan, family="NM"):
        self.ch = [list(c) for c in ch]
        self.par = parents_of(ch)
        self.plan = plan
        self.family = family
        self.events = []
        self.depth = 0
        self.faults = []

    def hook(self, kind, n, arg):
        i = len(self.events)
        self.events.append((kind, n, arg))
        if self.plan is not None and self.plan.fires(i, kind, n):
            self.faults.append((i, kind, n))
            raise SimInjected()

    def set_parent(self, n, value):
        if is_nonnode(value):
            if self.family == "NM":
                raise SimRefused("TreeError")
            raise SimRefused("unspecified")
        parent = self.par[n]
        if parent is not value:
            if value is not None:
                if value == n:
                    raise SimRefused("LoopError")
                if n in ancestors_or_self(self.par, value):
                    raise SimRefused("LoopError")
            if parent is not None:
                self.hook("pre_detach", n, parent)
                self.ch[parent] = [c for c in self.ch[parent] if c != n]
                self.par[n] = None
                self.hook("post_detach", n, parent)
            if value is not None:
                self.hook("pre_attach", n, value)
                self.ch[value].append(n)
                self.par[n] = value
                self.hook("post_attach", n, value)

    def del_children(self, n):
        children = tuple(self.ch[n])
        self.hook("pre_detach_children", n, children)
        for c in children:
            self.set_parent(c, None)
        self.hook("post_detach_children", n, children)

    def set_children(self, n, xs):
        self.depth += 1
        try:
            if self.depth > self.MAXDEPTH:
                raise SimRecursion()
            xs = tuple(xs)
            seen = set()
            for x in xs:
                if is_nonnode(x):
                    if self.family == "NM":
                        raise SimRefused("TreeError")
                    raise SimRefused("unspecified")
                if x in seen:
                    raise SimRefused("TreeError")
                seen.add(x)
            old = tuple(self.ch[n])
            self.del_children(n)
            try:
                self.hook("pre_attach_children", n, xs)
                for x in xs:
                    self.set_parent(x, n)
                self.hook("post_attach_children", n, xs)
            except SimRecursion:
                # RecursionError is an Exception: the real handler runs as
                # well, but it can only hit the limit again
                raise
            except (SimInjected, SimRefused):
                self.set_children(n, old)
                raise
        finally:
            self.depth -= 1

    def run(self, call):
        """Returns (outcome, ch)."""
        try:
            if call[0] == "setparent":
                self.set_parent(call[1], call[2])
            elif call[0] == "delchildren":
                self.del_children(call[1])
            else:
                if call[3] == "noniter":
                    raise SimRefused("TypeError")
                self.set_children(call[1], call[2])
            out = "ok"
        except SimInjected:
            out = "Injected"
        except SimRefused as e:
            out = e.cls
        except SimRecursion:
            out = "RecursionError"
        return out, tuple(tuple(c) for c in self.ch)
