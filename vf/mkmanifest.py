"""Regenerates /verif/MANIFEST.json from the property modules that exist."""
import importlib
import json
import os
import sys

HERE = os.path.dirname(os.path.abspath(__file__))
VERIF = os.path.dirname(HERE)
sys.path.insert(0, VERIF)

LEVEL_TEXT = {
    "C01": "Forest invariant evaluated after every one of the executions; all hook fault positions (once / twice / persistent) are enumerated for every forest over <=3 nodes and (thorough) <=4 nodes, both assertion modes. Held on the executions listed in the evidence, not a proof.",
    "C03": "Every raising call (invalid request or pre-hook veto at every enumerated hook position) has its complete pre/post snapshot compared; recorded known mechanisms are recognised only by exact predicted defective state.",
}
DESIGN_REF = {p: "DESIGN.md section 4, %s" % p for p in ["C%02d" % i for i in range(1, 21)]}


def main():
    checks = []
    na = []
    for i in range(1, 21):
        pid = "C%02d" % i
        path = os.path.join(HERE, "props", pid.lower() + ".py")
        if not os.path.exists(path):
            na.append({"property_id": pid, "reason": "check not built yet in this round (runtime monitor planned in DESIGN.md section 4)"})
            continue
        mod = importlib.import_module("vf.props." + pid.lower())
        checks.append(
            {
                "property_id": pid,
                "quick_cmd": "./check %s --tier quick" % pid,
                "thorough_cmd": "./check %s --tier thorough" % pid,
                "evidence_file": "evidence/%s.json" % pid,
                "replay_cmd_template": "./check %s --replay {path}" % pid,
                "engine": getattr(mod, "ENGINE", "vf"),
                "level_claimed": {
                    "category": mod.LEVEL,
                    "text": getattr(mod, "LEVEL_TEXT", None)
                    or LEVEL_TEXT.get(pid)
                    or "Runtime monitor with a deterministic oracle evaluated on every execution of an exhaustive small-scope plus seeded random workload on the real library; the verdict reads 'held on the executions described in the evidence file'.",
                    "design_ref": DESIGN_REF[pid],
                },
                "level_note": "Trusted base: the monitor/oracle code under /verif/vf (reference model written from the property statement), CPython, the workload bounds stated in the evidence 'rule'. " + " ".join(getattr(mod, "ASSUMPTIONS", [])),
                "technique": mod.TECHNIQUE,
            }
        )
    man = {
        "version": 1,
        "setup_cmd": "/venv/bin/python -B -c \"import sys; sys.path.insert(0, '.'); import vf.orch, vf.gen, vf.model; print('vf ok')\"",
        "hooks": {
            "guard": "C0FEC0DE_ANYTREE_VERIF",
            "enable": "no source hooks are needed: monitors subclass the node classes (the eight _pre_/_post_ notification methods are the library's own suspension points), wrap public properties from outside and import /repo's working tree fresh in every worker (VERIF_REPO, default /repo)",
            "baseline_off_cmd": "cd /repo && /venv/bin/python -m pytest -ra -q -p no:cacheprovider --timeout=900 --continue-on-collection-errors",
            "source_commits": [],
            "add_only": True,
        },
        "engines": [
            {
                "name": "vf",
                "path": "vf/",
                "serves_properties": [c["property_id"] for c in checks],
                "kind_free_text": "runtime monitoring: instrumented node subclasses + recorder + fault plans, executable reference models, trace automata, differential lock-step, exhaustive small-scope and seeded random workloads run in parallel worker processes against /repo's working tree",
            }
        ],
        "checks": checks,
        "notes": "Exit 0 = held on everything observed; 1 = VIOLATION lines; 2 = inconclusive (worker crash, watchdog, coverage gate missed). Known findings: known_findings.json (never written at run time).",
        "not_applicable": na,
    }
    with open(os.path.join(VERIF, "MANIFEST.json"), "w") as fh:
        json.dump(man, fh, indent=1)
    print("MANIFEST.json: %d checks, %d not_applicable" % (len(checks), len(na)))


if __name__ == "__main__":
    main()
