"""Regenerates /verif/MANIFEST.json from the property modules that exist."""
import importlib
import json
import os
import sys

HERE = os.path.dirname(os.path.abspath(__file__))
VERIF = os.path.dirname(HERE)
sys.path.insert(0, VERIF)

LEVEL_TEXT = {
    "C01": "Forest invariant evaluated after every executed call; every hook fault position (once / twice / persistent, vetoes of five exception classes, plus a restricted re-entrant hook; hooks read derived attributes of their node) is enumerated for every forest over <=3 nodes and (thorough) <=4 nodes, in both assertion modes, plus random histories (every other shard after ambient use of the rest of the API), ten further node families (value-equal, falsy, list- and tuple-derived, symlink mixes) and the repository's own tests under an in-situ wrapper; assertion-off shards alternate between the variable unset and '0', and the switch itself is monitored. Held on the executions listed in the evidence, not a proof.",
    "C02": "Outcome class and complete post-state of every fault-free call compared with an executable sequential model, exhaustively for all forests over <=4 nodes (thorough: 5) and all call arguments incl. constructors; bounded exhaustive + random histories, no proof.",
    "C03": "Every raising call (invalid request or pre-hook veto at every enumerated hook position) has its complete pre/post snapshot compared; recorded known mechanisms are recognised only by exact predicted defective state (as-implemented simulator), everything else is a violation.",
    "C04": "Every navigation attribute / util helper of every node compared by identity with reference definitions, on all ordered trees up to 7 (thorough 10) nodes, random and deep shapes, eight node families (value-equality, falsy, mapping-like, slotted classes), and after every step of mutation histories on the same objects.",
    "C05": "Yielded sequences of the five iterators compared with independently computed orders for every start node of all ordered trees up to 8 (thorough 11) nodes, random/deep shapes and mutation histories; grouped iterators also consumed as a stream.",
    "C06": "All five iterators under every (stop set, filter set, maxlevel) combination on all trees up to 5 (thorough 6) nodes compared with the restriction of the reference order; exhaustive in that scope, sampled beyond; predicates in five spellings, int-subclass maxlevel, iterators prepared before the predicates settle, and a raising predicate that no iterator may swallow.",
    "C07": "Resolver.get results / exact error classes compared with a reference path interpreter for all short paths on all small trees and random hostile names, all-pairs round trips, long-lived resolvers under renames and moves.",
    "C08": "Resolver.glob results compared with a set-semantics reference incl. order/duplicate/strict/get-agreement clauses; cache transparency monitored by replaying queries inside different call histories; long-lived resolvers under renames and moves.",
    "C09": "RenderTree rows compared with reference rows and an independent decoder that rebuilds the tree from the text; all trees up to 7 (thorough 9) nodes x styles x childiters x maxlevel; text/repr oracles on random multi-line data; nested and long-lived RenderTree objects across mutations; a raising lazy childiter must propagate.",
    "C10": "Exported dictionaries compared with an independent serialiser (dict class at every level), import/export round trips and argument immutability on all trees up to 6 (thorough 8) nodes x options x node classes and random rich attributes.",
    "C11": "Exported JSON text compared with json.dumps of the independently built reference dictionary under the same options; write/read agreement incl. a real file; rebuilt trees compared structurally.",
    "C12": "Emitted DOT lines parsed back with an independent unescaper and compared with the admitted sub-forest for every stop set x filter set x maxlevel on all trees up to 5 (thorough 6) nodes, hostile/colliding names, custom functions, predicates changing between iterations.",
    "C13": "Emitted Mermaid lines parsed back and compared with the admitted sub-forest for every stop set x filter set x maxlevel on all trees up to 5 (thorough 6) nodes; identifier stability across iterations and predicate changes.",
    "C14": "search / cachedsearch results and CountError (class and numbers) compared with the reference pre-order restriction for every bound pair around the match count on all trees up to 6 (thorough 7) nodes; cached vs uncached after every mutation; raising and stateful callbacks compared with PreOrderIter; value-equal, unhashable, slotted and tuple-named node classes.",
    "C15": "Walker.walk triples compared with LCA path arithmetic for all ordered pairs on all trees up to 8 (thorough 10) nodes, cross-tree pairs, deep shapes (a 1 500-level chain), value-semantics classes and mutation histories.",
    "C16": "Online trace automaton over the hook log with whole-forest snapshots inside every hook (bracketing, observation semantics, exact log for successful calls, prefix log for single faults), observation and group-wrap rules under three restricted re-entrant hooks, same enumeration as C01.",
    "C17": "Special-method probes attributed to library frames (zero invocations allowed) and differential execution of the complete API battery + structural calls on plain vs adversarial classes over a trait matrix (quick: sampled, thorough: full).",
    "C18": "Lock-step differential execution of identical call histories (faults included) on NodeMixin and LightNodeMixin universes (plain, value-equality and always-falsy class pairs), plus the complete read-only battery after static forests and histories.",
    "C19": "Copies by pickle (all protocols) and deepcopy walked in parallel with the original to build a bijection; id-disjointness, forest invariant on the copy, two-sided independence under mutation; all trees up to 6 (thorough 8) nodes x entry node x 13 class mixes, half of the trees used by the whole read-only API before they are copied.",
    "C20": "History monitor with a shadow attribute store per final target and the structural reference model over link and target positions; 2 000 (thorough 200 000) interleaved histories plus directed constructor-keyword cases.",
}
DESIGN_REF = {p: "DESIGN.md section 4, %s" % p for p in ["C%02d" % i for i in range(1, 21)]}


def main():
    checks = []
    na = []
    for i in range(1, 21):
        pid = "C%02d" % i
        path = os.path.join(HERE, "props", pid.lower() + ".py")
        if not os.path.exists(path):
            na.append({"property_id": pid, "reason": "check not built yet in this round (runtime monitor planned in DESIGN.md section 4)"})
            continue
        mod = importlib.import_module("vf.props." + pid.lower())
        checks.append(
            {
                "property_id": pid,
                "quick_cmd": "./check %s --tier quick" % pid,
                "thorough_cmd": "./check %s --tier thorough" % pid,
                "evidence_file": "evidence/%s.json" % pid,
                "replay_cmd_template": "./check %s --replay {path}" % pid,
                "engine": getattr(mod, "ENGINE", "vf"),
                "level_claimed": {
                    "category": mod.LEVEL,
                    "text": getattr(mod, "LEVEL_TEXT", None)
                    or LEVEL_TEXT.get(pid)
                    or "Runtime monitor with a deterministic oracle evaluated on every execution of an exhaustive small-scope plus seeded random workload on the real library; the verdict reads 'held on the executions described in the evidence file'.",
                    "design_ref": DESIGN_REF[pid],
                },
                "level_note": "Trusted base: the monitor/oracle code under /verif/vf (reference model written from the property statement), CPython, the workload bounds stated in the evidence 'rule'. " + "Assumptions: " + "; ".join(getattr(mod, "ASSUMPTIONS", [])) + ".",
                "technique": mod.TECHNIQUE,
            }
        )
    man = {
        "version": 1,
        "setup_cmd": "/venv/bin/python -B -c \"import sys; sys.path.insert(0, '.'); import vf.orch, vf.gen, vf.model; print('vf ok')\"",
        "hooks": {
            "guard": "C0FEC0DE_ANYTREE_VERIF",
            "enable": "no source hooks are needed: monitors subclass the node classes (the eight _pre_/_post_ notification methods are the library's own suspension points), wrap public properties from outside and import /repo's working tree fresh in every worker (VERIF_REPO, default /repo)",
            "baseline_off_cmd": "cd /repo && /venv/bin/python -m pytest -ra -q -p no:cacheprovider --timeout=900 --continue-on-collection-errors",
            "source_commits": [],
            "add_only": True,
        },
        "engines": [
            {
                "name": "vf",
                "path": "vf/",
                "serves_properties": [c["property_id"] for c in checks],
                "kind_free_text": "runtime monitoring: instrumented node subclasses + recorder + fault plans, executable reference models, trace automata, differential lock-step, exhaustive small-scope and seeded random workloads run in parallel worker processes against /repo's working tree",
            }
        ],
        "checks": checks,
        "notes": "Exit 0 = held on everything observed; 1 = VIOLATION lines; 2 = inconclusive (worker crash, watchdog, coverage gate missed). Known findings: known_findings.json (never written at run time).",
        "not_applicable": na,
    }
    with open(os.path.join(VERIF, "MANIFEST.json"), "w") as fh:
        json.dump(man, fh, indent=1)
    print("MANIFEST.json: %d checks, %d not_applicable" % (len(checks), len(na)))


if __name__ == "__main__":
    main()
