"""Building real trees from shapes."""
from . import forest as F
from .gen import children_of


def build(par, family="Node", names=None, attrs=None):
    """Nodes in label order for the pre-order parent array ``par`` (or any
    parent array whose parents precede... no ordering requirement: children are
    attached in increasing label order)."""
    k = len(par)
    names = names or ["n%d" % i for i in range(k)]
    attrs = attrs or [{}] * k
    if family == "Node":
        nodes = [F.Node(names[i], **attrs[i]) for i in range(k)]
    elif family == "AnyNode":
        nodes = [F.AnyNode(name=names[i], **attrs[i]) for i in range(k)]
    elif family == "NM":
        nodes = [F.NM(names[i]) for i in range(k)]
    elif family == "LM":
        nodes = [F.LM(names[i]) for i in range(k)]
    elif family == "MIX":
        nodes = F.make_nodes("MIX", k)
        for i, n in enumerate(nodes):
            n.name = names[i]
    else:
        raise ValueError(family)
    for i, p in enumerate(par):
        if p is not None:
            nodes[i].parent = nodes[p]
    return nodes


def build_ch(ch, family="Node", names=None):
    k = len(ch)
    par = [None] * k
    nodes = build(par, family, names)
    for p, cs in enumerate(ch):
        for c in cs:
            nodes[c].parent = nodes[p]
    return nodes
