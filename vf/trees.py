"""Building real trees from shapes."""
from . import forest as F
from .gen import children_of


def build(par, family="Node", names=None, attrs=None):
    """Nodes in label order for the pre-order parent array ``par`` (or any
    parent array whose parents precede... no ordering requirement: children are
    attached in increasing label order)."""
    k = len(par)
    names = names or ["n%d" % i for i in range(k)]
    attrs = attrs or [{}] * k
    if family == "Node":
        nodes = [F.Node(names[i], **attrs[i]) for i in range(k)]
    elif family == "AnyNode":
        nodes = [F.AnyNode(name=names[i], **attrs[i]) for i in range(k)]
    elif family == "NM":
        nodes = [F.NM(names[i]) for i in range(k)]
    elif family == "LM":
        nodes = [F.LM(names[i]) for i in range(k)]
    elif family == "VAL":
        nodes = [F.ValNM(names[i], i % 2) for i in range(k)]
    elif family == "VALLM":
        nodes = [F.ValLM(names[i], i % 2) for i in range(k)]
    elif family == "FALSY":
        nodes = [F.FalsyNM(names[i], i % 2) for i in range(k)]
    elif family == "ITER":
        nodes = [F.IterNM(names[i], i % 2) for i in range(k)]
    elif family == "SYMLM":
        # every other node is a link to a hidden LightNodeMixin node that has children of its own
        nodes = []
        for i in range(k):
            if i % 2:
                hidden = F.LM("hidden%d" % i)
                F.LM("hk%da" % i, parent=hidden)
                F.LM("hk%db" % i, parent=hidden)
                nodes.append(F.HSymMixin(hidden))
            else:
                nodes.append(F.NM(names[i]))
    elif family == "BARE":
        nodes = [F.BareNM(i, i % 2) for i in range(k)]  # no 'name' attribute at all, integer labels
    elif family == "LIST":
        nodes = [F.ListNM(names[i], i % 2) for i in range(k)]
    elif family == "TUPLE":
        nodes = [F.TupleNM(names[i], i % 2) for i in range(k)]
    elif family == "FALSYNODE":
        nodes = [F.FalsyNode(names[i]) for i in range(k)]  # always falsy, also as a parent with children
    elif family == "MIX":
        nodes = F.make_nodes("MIX", k)
        for i, n in enumerate(nodes):
            n.name = names[i]
    else:
        raise ValueError(family)
    for i, p in enumerate(par):
        if p is not None:
            nodes[i].parent = nodes[p]
    return nodes


def build_ch(ch, family="Node", names=None):
    k = len(ch)
    par = [None] * k
    nodes = build(par, family, names)
    for p, cs in enumerate(ch):
        for c in cs:
            nodes[c].parent = nodes[p]
    return nodes


READ_FAMILIES = ("Node", "NM", "LM", "AnyNode", "VAL", "FALSY", "VALLM", "FALSYNODE", "ITER", "LIST", "TUPLE")


def evolving_universe(ctx, rng, fam, k, steps, fault_rate=0.0):
    """One universe of k nodes mutated step by step with random fault-free
    structural calls; yields (nodes, par, ch, history) after every step (the
    same node objects throughout, so stale caches inside the library show)."""
    from . import gen
    from . import model as M
    from .props.forest_engine import Engine

    ffam = {"Node": "Node", "AnyNode": "AnyNode", "VAL": "VALNM"}.get(fam, fam)
    eng = Engine(ctx, (), faults=False)
    # in half of the histories the hooks read every node's parent/children (as a validating user hook does), in the
    # other half nobody looks at the nodes while a call is in progress: both mask different stale-memo defects
    reading_hooks = rng.random() < 0.5
    ch0 = gen.random_forest(rng, k)
    rec = F.Rec(F.materialise(ffam, ch0))
    hist = []
    snap = rec.snapshot()
    yield rec.nodes, [p for p, _ in snap], [list(c) for _, c in snap], {"family": fam, "state": [list(c) for c in ch0], "history": list(hist), "reading_hooks": reading_hooks}
    for _ in range(steps):
        snap = rec.snapshot()
        call = eng.random_call(rng, k, [p for p, _ in snap], "LM")
        plan = ("none",)
        if fault_rate and rng.random() < fault_rate:
            # a hook raising somewhere in the call (post hooks included): what the call leaves behind
            # in the objects must still give fresh answers afterwards
            plan = ("once", rng.randrange(0, 6))
        elif call[0] == "setparent" and rng.random() < 0.15:
            # restricted re-entrancy: the pre hook of this parent assignment detaches another child of its parent argument
            plan = (rng.choice(["evict", "evict", "admit"]), rng.choice([0, 2]))
        hist.append([F._jsonable(call), F._jsonable(plan)])
        pre = snap
        ex = F.run_call(rec, ffam, call, F.Plan(plan), snaps_on=reading_hooks)
        snap = rec.snapshot()
        probs = M.invariant(snap)
        if probs:
            # the structural calls themselves left something that is not a forest: every query result on it is
            # meaningless, which is reported under the property whose workload ran into it
            ctx.violation("%s/forest-inconsistent-after-history" % ctx.prop, "forest-invariant-in-history",
                          {"family": fam, "state": [list(c) for c in ch0], "history": list(hist), "reading_hooks": reading_hooks}, expected="a consistent forest after every call", observed=probs[:4])
            return
        par, ch = [p for p, _ in snap], [list(c) for _, c in snap]
        if ex.outcome == "returned" and not ex.faults and not ex.evicted:
            # the reference state after a successful call is what the call is specified to produce, not what the
            # library's own (possibly memoised) children/parent properties report afterwards
            out, mch, _ = M.model_call(M.ch_of(pre), call, F.base_family(ffam))
            if out in ("ok", "noop"):
                par, ch = gen.parents_of(mch), [list(c) for c in mch]
        yield rec.nodes, par, ch, {"family": fam, "state": [list(c) for c in ch0], "history": list(hist), "reading_hooks": reading_hooks}


def replay_universe(case):
    """Rebuild the universe of a case produced by evolving_universe: a generator that yields (nodes, par, ch) after
    every step, while the node objects are in that state (the same objects throughout)."""
    from . import gen
    from . import model as M
    fam = case["family"]
    ffam = {"Node": "Node", "AnyNode": "AnyNode", "VAL": "VALNM"}.get(fam, fam)

    def tup(x):
        return tuple(tup(y) for y in x) if isinstance(x, list) else x

    rec = F.Rec(F.materialise(ffam, tup(case["state"])))
    snap = rec.snapshot()
    yield rec.nodes, [p for p, _ in snap], [list(c) for _, c in snap]
    for ent in case["history"]:
        if len(ent) == 2 and isinstance(ent[1], list) and ent[1] and ent[1][0] in ("none", "once", "evict", "admit"):
            call, plan = ent
        else:
            call, plan = ent, ["none"]
        pre = rec.snapshot()
        ex = F.run_call(rec, ffam, tup(call), F.Plan(tup(plan)), snaps_on=case.get("reading_hooks", True))
        snap = rec.snapshot()
        par, ch = [p for p, _ in snap], [list(c) for _, c in snap]
        if ex.outcome == "returned" and not ex.faults and not ex.evicted and not M.invariant(pre):
            out, mch, _ = M.model_call(M.ch_of(pre), tup(call), F.base_family(ffam))
            if out in ("ok", "noop"):
                par, ch = gen.parents_of(mch), [list(c) for c in mch]
        yield rec.nodes, par, ch
