"""Read-only query battery: calls (almost) every read-only API of the library
on a universe of nodes and returns label-mapped plain data, so that two
universes with the same structure (NodeMixin vs LightNodeMixin, plain vs
adversarial classes) can be compared value by value.

Never uses ==, hash, bool, len, in on node objects: only ``is`` / ``id()``.
"""
import warnings

from .common import excname, lib

A = lib()
import anytree  # noqa: E402
import anytree.dotexport  # noqa: E402
from anytree import (  # noqa: E402
    LevelOrderGroupIter,
    LevelOrderIter,
    PostOrderIter,
    PreOrderIter,
    RenderTree,
    Resolver,
    Walker,
    ZigZagGroupIter,
    cachedsearch,
    search,
    util,
)
from anytree.exporter import DotExporter, MermaidExporter, UniqueDotExporter  # noqa: E402

ITERS = (
    ("pre", PreOrderIter),
    ("post", PostOrderIter),
    ("level", LevelOrderIter),
    ("group", LevelOrderGroupIter),
    ("zigzag", ZigZagGroupIter),
)


class Mapper:
    def __init__(self, nodes):
        self.idmap = {id(o): i for i, o in enumerate(nodes)}

    def lab(self, o):
        return self.idmap.get(id(o))

    def __call__(self, x):
        if x is None or type(x) in (bool, int, float, str, bytes):
            return x
        i = self.idmap.get(id(x))
        if i is not None:
            return ("N", i)
        if type(x) in (tuple, list) or isinstance(x, tuple):
            return [self(y) for y in x]
        if isinstance(x, dict):
            return {k: self(v) for k, v in x.items()}
        return ("OBJ", type(x).__name__)


def guarded(m, f, *a, **kw):
    try:
        return m(f(*a, **kw))
    except RecursionError:
        raise
    except Exception as e:  # noqa: B902
        return ("EXC", excname(e))


def battery(nodes, level=2, exporters=True, rng=None, names=None):
    """dict: query name -> label-mapped result."""
    m = Mapper(nodes)
    lab = m.lab
    k = len(nodes)
    out = {}
    g = guarded

    def inset(s):
        return lambda n: lab(n) in s

    sets = [frozenset(), frozenset(range(0, k, 2)), frozenset(range(1, k, 3)), frozenset([k - 1])]
    for i, n in enumerate(nodes):
        p = "n%d." % i
        for attr in ("parent", "children", "path", "ancestors", "root", "depth", "is_root", "is_leaf", "siblings", "descendants", "leaves", "size", "height"):
            out[p + attr] = g(m, getattr, n, attr)
        out[p + "iter_path_reverse"] = g(m, lambda n=n: list(n.iter_path_reverse()))
        out[p + "leftsibling"] = g(m, util.leftsibling, n)
        out[p + "rightsibling"] = g(m, util.rightsibling, n)
        for nm, it in ITERS:
            out[p + "it." + nm] = g(m, lambda it=it, n=n: list(it(n)))
        out[p + "common1"] = g(m, util.commonancestors, n)
        # resolver lookups by (possibly duplicated) name through the shared class-level state of Resolver
        rz = Resolver("name")
        for j in range(min(k, 4)):
            out[p + "get.%d" % j] = g(m, rz.get, n, str(getattr(nodes[j], "name", "")))
        out[p + "glob.star"] = g(m, rz.glob, n, "*")
        if level >= 1:
            for nm, it in ITERS:
                for ml in (0, 1, 2, 3):
                    out[p + "it.%s.ml%d" % (nm, ml)] = g(m, lambda it=it, n=n, ml=ml: list(it(n, maxlevel=ml)))
                for si, s in enumerate(sets):
                    for fi, f in enumerate(sets[:3]):
                        out[p + "it.%s.s%d.f%d" % (nm, si, fi)] = g(
                            m, lambda it=it, n=n, s=s, f=f: list(it(n, stop=inset(s), filter_=lambda x: lab(x) not in f, maxlevel=3 if si == 1 else None))
                        )
            for modn, mod in (("search", search), ("cachedsearch", cachedsearch)):
                pp = p + modn + "."
                for si, s in enumerate(sets[1:]):
                    out[pp + "findall.%d" % si] = g(m, mod.findall, n, filter_=inset(s))
                    out[pp + "findall.stop.%d" % si] = g(m, mod.findall, n, stop=inset(s), maxlevel=3)
                    out[pp + "find.%d" % si] = g(m, mod.find, n, filter_=inset(s))
                    out[pp + "findall.cnt.%d" % si] = g(m, mod.findall, n, filter_=inset(s), mincount=1, maxcount=2)
                out[pp + "findall.nofilter"] = g(m, mod.findall, n)
                out[pp + "findall.nofilter.ml1"] = g(m, mod.findall, n, maxlevel=1)
                out[pp + "findall.nofilter.ml2"] = g(m, mod.findall, n, maxlevel=2)
                out[pp + "find.nofilter.ml1"] = g(m, mod.find, n, maxlevel=1)
                out[pp + "find_by_attr"] = g(m, mod.find_by_attr, n, "n%d" % (k // 2))
                out[pp + "findall_by_attr"] = g(m, mod.findall_by_attr, n, "n0", maxlevel=3)
                out[pp + "findall_by_attr.x"] = g(m, mod.findall_by_attr, n, 1, name="nosuchattr")
            for ml in (None, 0, 2):
                out[p + "render.rows.%s" % ml] = g(m, lambda n=n, ml=ml: [(r.pre, r.fill, r.node) for r in RenderTree(n, maxlevel=ml)])
            out[p + "render.by_attr"] = g(m, lambda n=n: RenderTree(n, style=anytree.AsciiStyle()).by_attr("name"))
            out[p + "render.rev"] = g(m, lambda n=n: [(r.pre, r.fill, r.node) for r in RenderTree(n, childiter=reversed)])
            out[p + "render.rowstr"] = g(m, lambda n=n: [(r[0], r[1]) for r in RenderTree(n, style=anytree.DoubleStyle)])
    if level >= 1:
        w = Walker()
        for i, a in enumerate(nodes):
            for j, b in enumerate(nodes):
                out["walk.%d.%d" % (i, j)] = g(m, w.walk, a, b)
                out["common.%d.%d" % (i, j)] = g(m, util.commonancestors, a, b)
        out["common.none"] = g(m, util.commonancestors)
        for i in range(max(0, k - 2)):
            out["common3.%d" % i] = g(m, util.commonancestors, nodes[i], nodes[i + 1], nodes[i + 2])
        # resolver: names are n<i> (unique), separator "/"
        names = names or ["n%d" % i for i in range(k)]
        par = [lab(n.parent) for n in nodes]

        def abspath(i):
            comps = []
            while i is not None:
                comps.append(names[i])
                i = par[i]
            return "/" + "/".join(reversed(comps))

        for relax in (False, True):
            r = Resolver("name", relax=relax)
            ri = Resolver("name", ignorecase=True, relax=relax)
            tag = "R" if relax else "S"
            for i, a in enumerate(nodes):
                for j in range(k):
                    out["get%s.%d.abs%d" % (tag, i, j)] = g(m, r.get, a, abspath(j))
                    out["get%s.%d.name%d" % (tag, i, j)] = g(m, r.get, a, names[j])
                    out["geti%s.%d.name%d" % (tag, i, j)] = g(m, ri.get, a, names[j].upper())
                for pth in ("..", "../..", ".", "", "./..//.", "../" + names[0], "/", "/zz", names[0] + "/" + names[-1], "zz/yy"):
                    out["get%s.%d.%s" % (tag, i, pth)] = g(m, r.get, a, pth)
                for pat in ("*", "**", "*/*", "n?", "../*", "**/n0", "*/..", "n*", "**/*", "?1", "n0/*", "zz", "zz/*", "*/zz", "/*", "/*/*", "**/.."):
                    out["glob%s.%d.%s" % (tag, i, pat)] = g(m, r.glob, a, pat)
                    out["globi%s.%d.%s" % (tag, i, pat)] = g(m, ri.glob, a, pat.upper() if pat not in ("**",) else pat)
    if exporters and level >= 1:
        for i, n in enumerate(nodes):
            p = "n%d." % i
            for ml in (None, 0, 1, 2):
                out[p + "dot.%s" % ml] = g(m, lambda n=n, ml=ml: list(DotExporter(n, maxlevel=ml)))
                out[p + "mermaid.%s" % ml] = g(m, lambda n=n, ml=ml: list(MermaidExporter(n, maxlevel=ml)))
            ud = UniqueDotExporter(n)
            out[p + "udot"] = g(m, lambda ud=ud: [list(ud), list(ud)])
            for si, s in enumerate(sets[1:]):
                out[p + "dot.s%d" % si] = g(m, lambda n=n, s=s: list(DotExporter(n, stop=inset(s), filter_=lambda x: lab(x) != 0)))
                out[p + "mermaid.s%d" % si] = g(m, lambda n=n, s=s: list(MermaidExporter(n, stop=inset(s), filter_=lambda x: lab(x) != 0)))
                out[p + "udot.s%d" % si] = g(m, lambda n=n, s=s: list(UniqueDotExporter(n, stop=inset(s), maxlevel=3)))
            with warnings.catch_warnings():
                warnings.simplefilter("ignore")
                out[p + "rtg"] = g(m, lambda n=n: list(anytree.dotexport.RenderTreeGraph(n)))
    return out


def diff(a, b, limit=5):
    out = []
    for k in a:
        if k not in b:
            out.append((k, "missing"))
        elif a[k] != b[k]:
            out.append((k, a[k], b[k]))
        if len(out) >= limit:
            break
    return out
