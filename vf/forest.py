"""Forest engine: instrumented node families, recorder with fault plans,
execution of one structural call on the real library, and the monitors for
C01 (invariant), C02 (model), C03 (unchanged on refusal / veto), C16 (hook
trace automaton) and C18 (lock step).
"""
import sys

from . import model as M
from .common import Injected, excname, lib

A = lib()
from anytree import AnyNode, LightNodeMixin, Node, NodeMixin, SymlinkNode, SymlinkNodeMixin  # noqa: E402
from anytree.node.exceptions import LoopError, TreeError  # noqa: E402

class InjectedAssertion(AssertionError):
    """A hook that vetoes with ``assert`` (harness-raised, not an internal assertion of the library)."""


class InjectedValue(ValueError):
    pass


class InjectedRuntime(RuntimeError):
    pass


class InjectedTree(TreeError):
    """A validating hook that refuses with a TreeError subclass of its own."""


INJECTED_CLASSES = {"Injected": Injected, "AssertionError": InjectedAssertion, "ValueError": InjectedValue, "RuntimeError": InjectedRuntime, "TreeError": InjectedTree}

PRE_KINDS = ("pre_detach", "pre_attach", "pre_detach_children", "pre_attach_children")
POST_KINDS = ("post_detach", "post_attach", "post_detach_children", "post_attach_children")
KINDS = PRE_KINDS + POST_KINDS

CUR = None  # the active recorder (None: hooks are silent)


class Hooks:
    """Recording / fault-injecting notification hooks.  They chain to the next class in the MRO, so hooks that a
    library class defines itself (the mixins' are no-ops) still run."""

    __slots__ = ()

    def _pre_detach(self, parent):
        if CUR is not None:
            CUR.hook("pre_detach", self, parent)
        super()._pre_detach(parent)

    def _post_detach(self, parent):
        if CUR is not None:
            CUR.hook("post_detach", self, parent)
        super()._post_detach(parent)

    def _pre_attach(self, parent):
        if CUR is not None:
            CUR.hook("pre_attach", self, parent)
        super()._pre_attach(parent)

    def _post_attach(self, parent):
        if CUR is not None:
            CUR.hook("post_attach", self, parent)
        super()._post_attach(parent)

    def _pre_detach_children(self, children):
        if CUR is not None:
            CUR.hook("pre_detach_children", self, children)
        super()._pre_detach_children(children)

    def _post_detach_children(self, children):
        if CUR is not None:
            CUR.hook("post_detach_children", self, children)
        super()._post_detach_children(children)

    def _pre_attach_children(self, children):
        if CUR is not None:
            CUR.hook("pre_attach_children", self, children)
        super()._pre_attach_children(children)

    def _post_attach_children(self, children):
        if CUR is not None:
            CUR.hook("post_attach_children", self, children)
        super()._post_attach_children(children)


class NM(Hooks, NodeMixin):
    def __init__(self, name, parent=None, children=None):
        self.name = name
        self.parent = parent
        if children:
            self.children = children

    def __repr__(self):
        return "NM(%s)" % (self.name,)


class LM(Hooks, LightNodeMixin):
    __slots__ = ("name",)

    def __init__(self, name, parent=None, children=None):
        self.name = name
        self.parent = parent
        if children:
            self.children = children

    def __repr__(self):
        return "LM(%s)" % (self.name,)


class LM2(LM):
    """Slotted subclass adding slots of its own."""

    __slots__ = ("extra", "more")

    def __init__(self, name, extra=None, more=None):
        LM.__init__(self, name)
        self.extra = extra
        self.more = more


class LM3(LM2):
    """Third level: re-declares empty slots (data slots live in the intermediate base)."""

    __slots__ = ()


class HNode(Hooks, Node):
    pass


class HAny(Hooks, AnyNode):
    pass


class HSym(Hooks, SymlinkNode):
    pass


class HSymMixin(Hooks, SymlinkNodeMixin):
    def __init__(self, target, parent=None, children=None):
        self.target = target
        self.parent = parent
        if children:
            self.children = children

    def __repr__(self):
        return "HSymMixin(%r)" % (self.target,)


class HSymProp(Hooks, SymlinkNodeMixin):
    """Link whose ``target`` is a property (validated on assignment), stored under a private key."""

    def __init__(self, target, parent=None, children=None):
        self.target = target
        self.parent = parent
        if children:
            self.children = children

    @property
    def target(self):
        return self.__dict__["_tgt"]

    @target.setter
    def target(self, value):
        if value is None:
            raise ValueError("a link needs a target")
        self.__dict__["_tgt"] = value

    def __repr__(self):
        return "HSymProp(%r)" % (self.target,)


class HSymSlot(Hooks, SymlinkNodeMixin):
    """Link that keeps ``target`` in a slot, not in the instance dict."""

    __slots__ = ("target",)

    def __init__(self, target, parent=None, children=None):
        self.target = target
        self.parent = parent
        if children:
            self.children = children

    def __repr__(self):
        return "HSymSlot(%r)" % (self.target,)


def class_level_link(target, parent=None):
    """Link whose ``target`` is a class attribute (all links of that class point at one node)."""

    class HSymClassLevel(Hooks, SymlinkNodeMixin):
        def __init__(self, parent=None):
            self.parent = parent

        def __repr__(self):
            return "HSymClassLevel(%r)" % (self.target,)

    HSymClassLevel.target = target
    return HSymClassLevel(parent=parent)


LINK_VARIANTS = {"HSymMixin": HSymMixin, "HSymProp": HSymProp, "HSymSlot": HSymSlot, "HSymClassLevel": class_level_link}


class ValNM(Hooks, NodeMixin):
    """Value semantics: equal / hash-equal when the keys agree (several nodes share a key)."""

    def __init__(self, name, key=0):
        self.name = name
        self.key = key

    def __eq__(self, other):
        return getattr(other, "key", None) == self.key

    def __ne__(self, other):
        return getattr(other, "key", None) != self.key

    def __hash__(self):
        return hash(self.key)

    def __repr__(self):
        return "ValNM(%s)" % (self.name,)


class ValLM(Hooks, LightNodeMixin):
    __slots__ = ("name", "key")

    def __init__(self, name, key=0):
        self.name = name
        self.key = key

    def __eq__(self, other):
        return getattr(other, "key", None) == self.key

    def __ne__(self, other):
        return getattr(other, "key", None) != self.key

    def __hash__(self):
        return hash(self.key)

    def __repr__(self):
        return "ValLM(%s)" % (self.name,)


class FalsyNM(Hooks, NodeMixin):
    """Container-like node: its length is its number of children, so every leaf is falsy."""

    def __init__(self, name, key=0):
        self.name = name
        self.key = key

    def __len__(self):
        return len(self.children)

    def __repr__(self):
        return "FalsyNM(%s)" % (self.name,)


class IterNM(Hooks, NodeMixin):
    """Mapping-like node (as in the docstring of tests/test_special_methods_access.py): iterable over its
    descendants, sized, indexable by name."""

    def __init__(self, name, key=0):
        self.name = name
        self.key = key

    def __iter__(self):
        for child in self.children:
            yield child
            for item in child:
                yield item

    def __len__(self):
        return len(list(iter(self)))

    def __getitem__(self, name):
        for child in self:
            if child.name == name:
                return child
        raise KeyError(name)

    def __contains__(self, name):
        return any(child.name == name for child in self)

    def __repr__(self):
        return "IterNM(%s)" % (self.name,)


class ListNM(Hooks, NodeMixin, list):
    """A node that is also a list of payload items (``class Section(NodeMixin, list)``): value equality, unhashable,
    falsy while empty, iterable over its payload - and an instance of ``list`` for any type-based dispatch."""

    def __init__(self, name, key=0):
        list.__init__(self, ["item"] * (key % 2))
        self.name = name
        self.key = key

    def __repr__(self):
        return "ListNM(%s)" % (self.name,)


class TupleNM(Hooks, NodeMixin, tuple):
    """A node that is also a (two-element) tuple, like ``class P(namedtuple("P", "x y"), NodeMixin)``: value equality and
    hash, and the node unpacks wherever it is handed to a ``%`` format or a ``*`` call."""

    def __new__(cls, name, key=0):
        return tuple.__new__(cls, ("x", key))

    def __init__(self, name, key=0):
        self.name = name
        self.key = key

    def __repr__(self):
        return "TupleNM(%s)" % (self.name,)


class ReprLM(Hooks, LightNodeMixin):
    """Its repr shows the node's position among its siblings, so it only works while both link directions agree
    (library code that formats a node in the middle of an update gets an exception)."""

    __slots__ = ("name",)

    def __init__(self, name, key=0):
        self.name = name

    def __repr__(self):
        p = self.parent
        if p is None:
            return "ReprLM(%s)" % (self.name,)
        for i, c in enumerate(p.children):
            if c is self:
                return "ReprLM(%s #%d of %s)" % (self.name, i, p.name)
        raise LookupError("%s is not among the children of its parent" % (self.name,))


class BareNM(Hooks, NodeMixin):
    """A node class without a ``name`` attribute (diagnostics must not assume one)."""

    def __init__(self, label, key=0):
        self.label = label
        self.key = key

    def __repr__(self):
        return "BareNM(%r)" % (self.label,)


class FalsyLM(Hooks, LightNodeMixin):
    """Always falsy, also as a parent that has children."""

    __slots__ = ("name", "key")

    def __init__(self, name, key=0):
        self.name = name
        self.key = key

    def __len__(self):
        return len(self.children)

    def __bool__(self):
        return False

    def __repr__(self):
        return "FalsyLM(%s)" % (self.name,)


class FalsyNMB(Hooks, NodeMixin):
    """NodeMixin twin of FalsyLM: always falsy, also as a parent that has children."""

    def __init__(self, name, key=0):
        self.name = name
        self.key = key

    def __len__(self):
        return len(self.children)

    def __bool__(self):
        return False

    def __repr__(self):
        return "FalsyNMB(%s)" % (self.name,)


class PropNode(Hooks, Node):
    """A target that implements one of its attributes through the class: a property with setter."""

    @property
    def lng(self):
        try:
            return self.__dict__["_lng_store"]
        except KeyError:
            raise AttributeError("lng")

    @lng.setter
    def lng(self, value):
        self.__dict__["_lng_store"] = value

    @property
    def k9(self):
        """Read-only: assignments are refused with AttributeError, also through a link."""
        return "RO"


class FalsyAny(Hooks, AnyNode):
    def __len__(self):
        return len(self.children)


class FalsyNode(Hooks, Node):
    def __len__(self):
        return len(self.children)

    def __bool__(self):
        return False


FAMILIES = ("NM", "LM", "Node", "AnyNode", "MIX", "VALNM", "VALLM", "FALSY", "FALSYLM", "FALSYNMB", "FALSYANY", "FALSYNODE", "ITER", "LIST", "TUPLE")
LOCKSTEP_PAIRS = {"NM": ("NM", "LM"), "VALNM": ("VALNM", "VALLM"), "FALSYNMB": ("FALSYNMB", "FALSYLM")}


def base_family(family):
    """'LM' for LightNodeMixin-based families (no claims for non-node arguments), else 'NM'."""
    return "LM" if family in ("LM", "VALLM", "FALSYLM", "REPRLM") else "NM"

CUSTOM_FAMILIES = {}  # name -> factory(k) -> list of fresh detached nodes


def make_nodes(family, k):
    """k fresh detached nodes of the family (MIX: a rotation of all
    NodeMixin-based classes, symlinks pointing at hidden targets or at other
    universe members)."""
    if family in CUSTOM_FAMILIES:
        return CUSTOM_FAMILIES[family](k)
    if family == "VALNM":
        return [ValNM("n%d" % i, i % 2) for i in range(k)]
    if family == "VALLM":
        return [ValLM("n%d" % i, i % 2) for i in range(k)]
    if family == "ITER":
        return [IterNM("n%d" % i, i % 2) for i in range(k)]
    if family == "REPRLM":
        return [ReprLM("n%d" % i) for i in range(k)]
    if family == "LIST":
        return [ListNM("n%d" % i, i % 2) for i in range(k)]
    if family == "TUPLE":
        return [TupleNM("n%d" % i, i % 2) for i in range(k)]
    if family == "FALSYLM":
        return [FalsyLM("n%d" % i, i % 2) for i in range(k)]
    if family == "FALSYNMB":
        return [FalsyNMB("n%d" % i, i % 2) for i in range(k)]
    if family == "FALSYANY":
        return [FalsyAny(id="n%d" % i, name="n%d" % i) for i in range(k)]
    if family == "FALSYNODE":
        return [FalsyNode("n%d" % i) for i in range(k)]
    if family == "FALSY":
        return [FalsyNM("n%d" % i, i % 2) for i in range(k)]
    if family == "NM":
        return [NM("n%d" % i) for i in range(k)]
    if family == "LM":
        return [LM("n%d" % i) for i in range(k)]
    if family == "Node":
        return [HNode("n%d" % i) for i in range(k)]
    if family == "AnyNode":
        return [HAny(id="n%d" % i, name="n%d" % i) for i in range(k)]
    if family == "MIX":
        out = []
        for i in range(k):
            r = i % 5
            if r == 0:
                out.append(HNode("n%d" % i))
            elif r == 1:
                out.append(HSym(Node("hidden%d" % i)))
            elif r == 2:
                out.append(HAny(id="n%d" % i, name="n%d" % i))
            elif r == 3:
                out.append(HSymMixin(out[1]))  # link to a universe member that is itself a link
            else:
                out.append(NM("n%d" % i))
        return out
    raise ValueError(family)


class Plan:
    """Fault plan: pure function of (event index in call, kind, node label)."""

    def __init__(self, spec):
        self.spec = tuple(spec) if spec else ("none",)
        t = self.spec[0]
        self.t = t
        # optional last element: the class of the exception the hook raises (default: Injected)
        self.exc = INJECTED_CLASSES[self.spec[-1]] if isinstance(self.spec[-1], str) and self.spec[-1] in INJECTED_CLASSES and len(self.spec) > 2 else Injected
        if t == "once":
            self.idx = frozenset([self.spec[1]])
        elif t == "multi":
            self.idx = frozenset(self.spec[1])
        elif t == "persist":
            self.kind = self.spec[1]
            self.label = self.spec[2]
        elif t == "evict":
            # restricted re-entrancy: the pre hook at event index spec[1] detaches another child of its
            # parent argument (a bounded parent evicting its oldest child); it never raises
            self.evict_at = self.spec[1]
        elif t == "admit":
            # restricted re-entrancy: the _pre_attach hook at event index spec[1] first attaches another root node
            # to its parent argument (a parent that gives every new child a title sibling); it never raises
            self.evict_at = self.spec[1]
        elif t == "tombstone":
            # restricted re-entrancy inside a children deletion / assignment: the _post_detach hook at event index
            # spec[1] attaches another root node to the parent the node has just left (a tombstone); it never raises
            self.evict_at = self.spec[1]
        elif t == "rehome":
            # restricted re-entrancy, group hooks: the _pre_detach_children hook at event index spec[1] moves the
            # first of the children it is told about below another node (an "archive"); it never raises
            self.evict_at = self.spec[1]
        elif t != "none":
            raise ValueError(spec)

    def fires(self, i, kind, n):
        t = self.t
        if t in ("none", "evict", "rehome", "admit", "tombstone"):
            return False
        if t == "persist":
            return kind == self.kind and (self.label is None or self.label == n)
        return i in self.idx


NOPLAN = Plan(("none",))


class Rec:
    """Recorder: labels, snapshots and the hook log of one universe."""

    def __init__(self, nodes):
        self.nodes = nodes
        self.idmap = {id(o): i for i, o in enumerate(nodes)}
        self.events = []
        self.snaps = []
        self.faults = []
        self.evicted = []
        self.plan = NOPLAN
        self.snaps_on = True

    def adopt(self, obj):
        self.idmap[id(obj)] = len(self.nodes)
        self.nodes.append(obj)

    def label(self, obj):
        if obj is None:
            return None
        i = self.idmap.get(id(obj))
        if i is None:
            return ("F", type(obj).__name__)
        return i

    def snapshot(self):
        lab = self.label
        return tuple((lab(n.parent), tuple([lab(c) for c in n.children])) for n in self.nodes)

    def start(self, plan, snaps_on=True):
        self.events = []
        self.snaps = []
        self.faults = []
        self.evicted = []
        self.plan = plan
        self.snaps_on = snaps_on

    def hook(self, kind, node, arg):
        i = len(self.events)
        nl = self.label(node)
        if type(arg) is tuple:
            al = tuple([self.label(a) for a in arg])
        else:
            al = self.label(arg)
        snap = self.snapshot() if self.snaps_on else None
        self.events.append((kind, nl, al))
        self.snaps.append(snap)
        if self.plan.t == "evict" and i == self.plan.evict_at and kind in ("pre_attach", "pre_detach") and isinstance(al, int) and isinstance(nl, int):
            now = snap if snap is not None else self.snapshot()
            victims = [c for c in now[al][1] if c != nl and isinstance(c, int)]
            if victims:
                self.evicted.append((i, victims[0]))
                self.nodes[victims[0]].parent = None
        elif self.plan.t == "admit" and i == self.plan.evict_at and kind == "pre_attach" and isinstance(al, int) and isinstance(nl, int):
            now = snap if snap is not None else self.snapshot()
            top = al
            steps = 0
            while now[top][0] is not None and steps <= len(now):
                top = now[top][0]
                steps += 1
            guests = [x for x in range(len(now)) if now[x][0] is None and x != nl and x != top]
            if guests:
                self.evicted.append((i, guests[0]))
                self.nodes[guests[0]].parent = self.nodes[al]
        elif self.plan.t == "tombstone" and i == self.plan.evict_at and kind == "post_detach" and isinstance(al, int) and isinstance(nl, int):
            now = snap if snap is not None else self.snapshot()
            top = al
            steps = 0
            while now[top][0] is not None and steps <= len(now):
                top = now[top][0]
                steps += 1
            guests = [x for x in range(len(now)) if now[x][0] is None and x != nl and x != top]
            if guests:
                self.evicted.append((i, guests[0]))
                self.nodes[guests[0]].parent = self.nodes[al]
        elif self.plan.t == "rehome" and i == self.plan.evict_at and kind == "pre_detach_children" and isinstance(nl, int) and al and isinstance(al[0], int):
            now = snap if snap is not None else self.snapshot()
            victim = al[0]
            below = set()
            stack = [victim]
            while stack:
                x = stack.pop()
                if x not in below:
                    below.add(x)
                    stack.extend(c for c in now[x][1] if isinstance(c, int))
            homes = [x for x in range(len(now)) if x != nl and x not in below]
            if homes:
                self.evicted.append((i, victim, homes[-1]))
                self.nodes[victim].parent = self.nodes[homes[-1]]
        elif snap is not None and isinstance(nl, int):
            # a validating / logging hook also reads derived attributes, of its node and of the nodes around it
            # (nothing may be memoised from here: the forest is in the middle of an update)
            node.root, node.depth, node.height  # noqa: B018
            if len(self.nodes) <= 12:
                for other in self.nodes:
                    other.path, other.is_leaf  # noqa: B018
        if self.plan.fires(i, kind, nl):
            self.faults.append((i, kind, nl))
            raise self.plan.exc("%s@%d" % (kind, i))


def materialise(family, ch):
    """Fresh universe in state ch (built with silent hooks)."""
    nodes = make_nodes(family, len(ch))
    for p, cs in enumerate(ch):
        for c in cs:
            nodes[c].parent = nodes[p]
    return nodes


NONNODES = {
    "object": lambda: object(),
    "int": lambda: 7,
    "str": lambda: "x",
    "none": lambda: None,
    "dict": lambda: {},
    "plainclass": lambda: _Plain(),
    # falsy non-nodes: a truthiness test instead of 'is None' lets them through
    "zero": lambda: 0,
    "emptystr": lambda: "",
    "emptylist": lambda: [],
    "false": lambda: False,
    "emptydict": lambda: {},
}


class _Plain:
    parent = None
    children = ()


def _resolve(nodes, x):
    if M.is_nonnode(x):
        return NONNODES[x[1]]()
    return nodes[x]


def perform(nodes, call):
    op = call[0]
    if op == "setparent":
        p = call[2]
        nodes[call[1]].parent = None if p is None else _resolve(nodes, p)
    elif op == "delchildren":
        del nodes[call[1]].children
    elif op == "setchildren":
        itkind = call[3]
        if itkind == "noniter":
            arg = 5
        else:
            xs = [_resolve(nodes, x) for x in call[2]]
            if itkind == "list":
                arg = xs
            elif itkind == "tuple":
                arg = tuple(xs)
            elif itkind == "gen":
                arg = (x for x in xs)
            elif itkind == "iter":
                arg = iter(xs)
            else:
                raise ValueError(itkind)
        nodes[call[1]].children = arg
    else:
        raise ValueError(call)


def outcome_of(exc):
    if exc is None:
        return "returned"
    t = type(exc)
    if t is LoopError:
        return "LoopError"
    if t is TreeError:
        return "TreeError"
    if t is Injected or t in (InjectedAssertion, InjectedValue, InjectedRuntime, InjectedTree):
        return "Injected"
    if t in (TypeError, RecursionError, AssertionError):
        return t.__name__
    return excname(exc)


class Exec:
    __slots__ = ("family", "call", "planspec", "pre", "post", "outcome", "events", "snaps", "faults", "excrepr", "evicted")

    def case(self):
        return {
            "family": self.family,
            "state": [list(c) for c in M.ch_of(self.pre)],
            "call": _jsonable(self.call),
            "plan": _jsonable(self.planspec),
        }


def _jsonable(x):
    if isinstance(x, (tuple, list, frozenset)):
        return [_jsonable(y) for y in x]
    return x


def run_call(rec, family, call, plan, snaps_on=True, pre=None):
    """Execute one call on the live universe of ``rec`` under ``plan``.

    ``pre``: the state the universe is known to be in (freshly materialised from a model state): then the
    nodes are NOT read before the call - reading ``children`` materialises lazily created internals of a
    node and would mask defects that only show on nodes nobody has looked at yet."""
    global CUR
    ex = Exec()
    ex.family = family
    ex.call = call
    ex.planspec = plan.spec
    ex.pre = pre if pre is not None else rec.snapshot()
    rec.start(plan, snaps_on)
    exc = None
    CUR = rec
    try:
        perform(rec.nodes, call)
    except BaseException as e:  # noqa: B902 - RecursionError etc. are observations
        if type(e).__name__ == "CaseTimeout":
            CUR = None
            raise
        exc = e
    finally:
        CUR = None
    ex.outcome = outcome_of(exc)
    ex.excrepr = None if exc is None else ("%s: %s" % (type(exc).__name__, str(exc)[:200]))
    ex.events = rec.events
    ex.snaps = rec.snaps
    ex.faults = rec.faults
    ex.evicted = rec.evicted
    ex.post = rec.snapshot()
    return ex


def execute(family, ch, call, planspec, snaps_on=True):
    nodes = materialise(family, ch)
    rec = Rec(nodes)
    return run_call(rec, family, call, Plan(planspec), snaps_on, pre=M.snap_of(ch))


# ================================================================ monitors
def mon_c01(ctx, ex):
    """Forest invariant after every call + no internal assertion fires."""
    ctx.count("mon.C01.invariant")
    probs = M.invariant(ex.post)
    if probs:
        ctx.violation(
            "C01/invariant/%s/%s" % (ex.call[0], ex.outcome),
            "forest-invariant",
            ex.case(),
            expected="invariant I on post-state",
            observed={"post": _jsonable(ex.post), "problems": probs[:6], "outcome": ex.outcome},
        )
        return False
    if ex.outcome == "AssertionError":
        ctx.violation(
            "C01/assertion/%s" % ex.call[0],
            "no-internal-assertion",
            ex.case(),
            expected="no AssertionError escapes",
            observed=ex.excrepr,
        )
        return False
    return True


def mon_c02(ctx, ex):
    """Outcome class and post-state equal the reference model (fault-free)."""
    if ex.planspec[0] == "evict":
        return mon_c02_evict(ctx, ex)
    if ex.planspec[0] == "admit":
        return mon_c02_admit(ctx, ex)
    if ex.planspec[0] == "tombstone":
        return True  # judged by the hook-protocol monitor only
    if ex.faults or ex.planspec[0] != "none":
        return True
    fam = base_family(ex.family)
    pre_probs = M.invariant(ex.pre)
    if pre_probs:
        # earlier calls of this history (possibly one aborted by a raising hook) left something that is not a forest:
        # no later call can have its specified effect on it
        ctx.violation("C02/effect/%s/on-inconsistent-state-left-by-earlier-call" % ex.call[0], "model-effect", ex.case(), expected="a consistent forest before the call",
                      observed={"pre": _jsonable(ex.pre), "problems": pre_probs[:4]})
        return False
    exp_out, exp_ch, _ = M.model_call(M.ch_of(ex.pre), ex.call, fam)
    if exp_out == "unspecified":
        return True
    ctx.count("mon.C02.model")
    ctx.count("C02.expected." + exp_out)
    obs = ex.outcome
    exp_obs = "returned" if exp_out in ("ok", "noop") else exp_out
    if obs != exp_obs:
        ctx.violation(
            "C02/outcome/%s/%s-for-%s" % (ex.call[0], obs, exp_out),
            "model-outcome",
            ex.case(),
            expected=exp_out,
            observed={"outcome": obs, "exc": ex.excrepr},
        )
        return False
    if exp_out in ("ok", "noop"):
        if M.ch_of(ex.post) != exp_ch or ex.post != M.snap_of(exp_ch):
            ctx.violation(
                "C02/effect/%s/%s" % (ex.call[0], exp_out),
                "model-effect",
                ex.case(),
                expected=_jsonable(M.snap_of(exp_ch)),
                observed=_jsonable(ex.post),
            )
            return False
    return True


def mon_c02_evict(ctx, ex):
    """Parent assignment whose pre hook detaches another child of its parent argument: the effect is the
    composition of the nested call (at the hook's point in the sequence) and the outer call."""
    if ex.call[0] != "setparent" or not ex.evicted or not isinstance(ex.call[2], (int, type(None))):
        return True
    fam = base_family(ex.family)
    st = M.ch_of(ex.pre)
    n, q = ex.call[1], ex.call[2]
    at, victim = ex.evicted[0]
    kind = ex.events[at][0]
    out0, _, _ = M.model_call(st, ex.call, fam)
    if out0 != "ok":
        return True
    ctx.count("mon.C02.reentrant")
    if kind == "pre_detach":
        _, st, _ = M.model_call(st, ("setparent", victim, None), fam)
        _, st, _ = M.model_call(st, ex.call, fam)
    else:
        _, st, _ = M.model_call(st, ("setparent", n, None), fam)
        _, st, _ = M.model_call(st, ("setparent", victim, None), fam)
        _, st, _ = M.model_call(st, ("setparent", n, q), fam)
    if ex.outcome != "returned" or ex.post != M.snap_of(st):
        ctx.violation("C02/effect/setparent/reentrant-hook", "model-effect", ex.case(), expected=_jsonable(M.snap_of(st)),
                      observed={"post": _jsonable(ex.post), "outcome": ex.outcome, "exc": ex.excrepr}, note="pre hook detached sibling %d at event %d" % (victim, at))
        return False
    return True


def mon_c02_admit(ctx, ex):
    """Parent assignment whose _pre_attach hook first attaches another root to the same new parent: the guest
    comes before the node, which is appended last."""
    if ex.call[0] != "setparent" or not ex.evicted or not isinstance(ex.call[2], int):
        return True
    fam = base_family(ex.family)
    st = M.ch_of(ex.pre)
    n, q = ex.call[1], ex.call[2]
    at, guest = ex.evicted[0]
    out0, _, _ = M.model_call(st, ex.call, fam)
    if out0 != "ok":
        return True
    ctx.count("mon.C02.reentrant")
    _, st, _ = M.model_call(st, ("setparent", n, None), fam)
    _, st, _ = M.model_call(st, ("setparent", guest, q), fam)
    _, st, _ = M.model_call(st, ("setparent", n, q), fam)
    if ex.outcome != "returned" or ex.post != M.snap_of(st):
        ctx.violation("C02/effect/setparent/reentrant-hook-admit", "model-effect", ex.case(), expected=_jsonable(M.snap_of(st)),
                      observed={"post": _jsonable(ex.post), "outcome": ex.outcome, "exc": ex.excrepr}, note="pre_attach hook attached root %d to the new parent at event %d" % (guest, at))
        return False
    return True


def c03_applicable(ex):
    """The call raised because it is invalid or because a pre hook raised."""
    if ex.outcome == "returned":
        return None
    if ex.faults:
        if any(k in POST_KINDS for _, k, _ in ex.faults):
            return None
        if ex.outcome not in ("Injected", "RecursionError"):
            # e.g. a LoopError that surfaces although a pre hook also vetoed:
            # still "the call raised", and only pre hooks raised
            pass
        return "veto"
    if ex.outcome in ("TreeError", "LoopError", "TypeError"):
        return "refusal"
    return None


def classify_c03(ex):
    """Mechanism name for a non-restored state (only used for known findings)."""
    op = ex.call[0]
    if ex.outcome == "RecursionError":
        return "rollback-refault"
    if op == "setparent":
        if ex.faults and ex.faults[0][1] == "pre_attach":
            return "move-pre-attach"
        return None
    if op == "delchildren":
        if ex.faults and ex.faults[0][1] == "pre_detach":
            return "del-partial"
        return None
    # setchildren
    n = ex.call[1]
    pdc_seen = 0
    first_fault = ex.faults[0] if ex.faults else None
    if len(ex.faults) > 1:
        # a later fault can only have hit the rollback
        return "rollback-refault"
    if first_fault is not None:
        i, kind, node = first_fault
        # delete phase = before the first post_detach_children of n
        phase1_end = None
        for j, (k, nl, _) in enumerate(ex.events):
            if k == "post_detach_children" and nl == n:
                phase1_end = j
                break
        if kind == "pre_detach" and (phase1_end is None or i < phase1_end):
            return "del-partial"
        return "setter-stolen"
    return "setter-stolen"


def mon_c03(ctx, ex, known_mechanisms):
    why = c03_applicable(ex)
    if why is None:
        return True
    ctx.count("mon.C03.unchanged")
    ctx.count("C03.%s.%s" % (why, ex.call[0]))
    if why == "veto":
        ctx.count("C03.veto.kind." + ex.faults[0][1])
    else:
        ctx.count("C03.refusal." + ex.outcome)
    if ex.post == ex.pre:
        ctx.count("C03.unchanged_ok")
        if why == "veto":
            ctx.count("C03.unchanged_ok.veto." + ex.faults[0][1])
        return True
    # not restored: exact-mechanism recognition of known findings
    mech = classify_c03(ex)
    if mech is not None and mech in known_mechanisms:
        fam = base_family(ex.family)
        sim = M.Sim(M.ch_of(ex.pre), Plan(ex.planspec), fam)
        s_out, s_ch = sim.run(ex.call)
        if s_out == ex.outcome and M.snap_of(s_ch) == ex.post and M.invariant(ex.post) == []:
            ctx.known_finding(mech, ex.case(), {"outcome": ex.outcome, "post": _jsonable(ex.post)})
            ctx.count("C03.known." + mech)
            return True
    ctx.violation(
        "C03/changed/%s/%s/%s" % (ex.call[0], why, ex.faults[0][1] if ex.faults else ex.outcome),
        "unchanged-after-raise",
        ex.case(),
        expected=_jsonable(ex.pre),
        observed={"post": _jsonable(ex.post), "outcome": ex.outcome, "events": _jsonable(ex.events[:40])},
        note="mechanism=%s" % mech,
    )
    return False


def _apply_detach(snap, n, p):
    new = [[pp, list(cs)] for pp, cs in snap]
    new[p][1] = [c for c in new[p][1] if c != n]
    new[n][0] = None
    return tuple((pp, tuple(cs)) for pp, cs in new)


def _apply_attach(snap, n, q):
    new = [[pp, list(cs)] for pp, cs in snap]
    new[q][1].append(n)
    new[n][0] = q
    return tuple((pp, tuple(cs)) for pp, cs in new)


def mon_c16(ctx, ex):
    """Trace automaton R1-R6 over the hook log with in-hook snapshots."""
    if ex.outcome in ("RecursionError",):
        ctx.count("C16.skipped.recursion")
        return True
    ev = ex.events
    sn = ex.snaps
    if sn and sn[0] is None:
        return True
    if ex.planspec[0] in ("evict", "admit"):
        return mon_c16_observations(ctx, ex)
    if ex.planspec[0] == "tombstone":
        return mon_c16_group_wrap(ctx, ex)
    ctx.count("mon.C16.automaton")
    faulted = {i for i, _, _ in ex.faults}
    m = len(ev)
    fam = base_family(ex.family)

    def bad(rule, i, detail):
        ctx.violation(
            "C16/%s/%s/%s" % (rule, ex.call[0], ev[i][0] if 0 <= i < m else "-"),
            "hook-automaton",
            ex.case(),
            expected=detail,
            observed={
                "events": _jsonable(ev[:60]),
                "at": i,
                "outcome": ex.outcome,
                "snap": _jsonable(sn[i]) if 0 <= i < m else None,
            },
        )
        return False

    # nothing changes before the first hook / without any hook
    first = sn[0] if m else ex.post
    if first != ex.pre:
        return bad("R1-change-before-first-hook", -1, "state at first hook == state at call entry")
    for i in range(m):
        kind, n, arg = ev[i]
        here = sn[i]
        nxt = sn[i + 1] if i + 1 < m else ex.post
        nxt_ev = ev[i + 1] if i + 1 < m else None
        ctx.count("C16.ev." + kind)
        if isinstance(n, tuple) or (kind in ("pre_detach", "post_detach", "pre_attach", "post_attach") and not isinstance(arg, int)):
            return bad("R2-foreign", i, "hook arguments are universe nodes")
        # R2 observation semantics
        if kind == "pre_detach":
            if here[n][0] != arg or n not in here[arg][1]:
                return bad("R2-pre_detach", i, "node still child of the old parent (argument)")
        elif kind in ("post_detach", "pre_attach"):
            if here[n][0] is not None or any(n in cs for _, cs in here):
                return bad("R2-" + kind, i, "node is a root and in no children tuple")
            if kind == "post_detach":
                # must close a pre_detach of the same node/parent
                if i == 0 or ev[i - 1] != ("pre_detach", n, arg) or (i - 1) in faulted:
                    return bad("R1-unbracketed", i, "post_detach directly preceded by matching pre_detach")
        elif kind == "post_attach":
            if here[n][0] != arg or not here[arg][1] or here[arg][1][-1] != n:
                return bad("R2-post_attach", i, "node is the last child of the new parent (argument)")
            if i == 0 or ev[i - 1] != ("pre_attach", n, arg) or (i - 1) in faulted:
                return bad("R1-unbracketed", i, "post_attach directly preceded by matching pre_attach")
        # R1 allowed differences
        if i in faulted:
            if nxt != here and nxt_ev is None:
                pass  # handled below (same rule)
            exp = here
            # a faulted hook does nothing itself; what follows is the next
            # event's business, so the state up to the next hook is unchanged
            if nxt != exp:
                return bad("R1-change-after-veto", i, "no link change between a raising hook and the next hook")
            continue
        if kind == "pre_detach":
            exp = _apply_detach(here, n, arg)
            if nxt_ev != ("post_detach", n, arg):
                return bad("R1-pre_detach-not-followed", i, "pre_detach followed by post_detach of the same node/parent")
            if nxt != exp:
                return bad("R1-detach-effect", i, "exactly: node removed from old parent's children, parent None")
        elif kind == "pre_attach":
            exp = _apply_attach(here, n, arg)
            if nxt_ev != ("post_attach", n, arg):
                return bad("R1-pre_attach-not-followed", i, "pre_attach followed by post_attach of the same node/parent")
            if nxt != exp:
                return bad("R1-attach-effect", i, "exactly: node appended as last child of the new parent")
        else:
            if nxt != here:
                return bad("R1-unbracketed-change", i, "no link change outside a pre/post detach or attach pair")
    # R3 / R6: complete log for successful calls, prefix for single faults
    exp_out, _, exp_log = M.model_call(M.ch_of(ex.pre), ex.call, fam)
    if exp_out == "unspecified":
        return True
    evl = [tuple(e) for e in ev]
    if not ex.faults and ex.outcome == "returned" and exp_log is not None:
        ctx.count("mon.C16.R3")
        if evl != exp_log:
            ctx.violation(
                "C16/R3-log/%s/%s" % (ex.call[0], exp_out),
                "hook-log",
                ex.case(),
                expected=_jsonable(exp_log),
                observed=_jsonable(evl[:60]),
            )
            return False
        if exp_out == "noop":
            ctx.count("C16.noop_silent")
    if not ex.faults and ex.call[0] == "setparent" and exp_out in ("TreeError", "LoopError") and evl:
        return bad("R4-refused-fires", 0, "refused parent assignment calls nothing")
    if ex.faults and ex.call[0] in ("setparent", "delchildren") and exp_log is not None and exp_out in ("ok", "noop"):
        k = ex.faults[0][0]
        ctx.count("mon.C16.R6")
        if evl != exp_log[: k + 1]:
            ctx.violation(
                "C16/R6-prefix/%s" % ex.call[0],
                "hook-log-prefix",
                ex.case(),
                expected=_jsonable(exp_log[: k + 1]),
                observed=_jsonable(evl[:60]),
            )
            return False
        if ex.outcome != "Injected":
            ctx.violation(
                "C16/R5-swallowed/%s/%s" % (ex.call[0], ex.faults[0][1]),
                "hook-exception-propagates",
                ex.case(),
                expected="Injected",
                observed=ex.outcome,
            )
            return False
        if ex.call[0] == "setparent" and ex.faults[0][1] in POST_KINDS:
            ctx.count("C16.R5.post_fault_kept")
    return True


def mon_c16_group_wrap(ctx, ex):
    """Children deletion / assignment while a per-child _post_detach hook gives the old parent a new child (a
    tombstone): the per-child calls are still wrapped in the group hooks, and nothing raises (assertion mode off)."""
    if not ex.evicted or ex.call[0] not in ("delchildren", "setchildren"):
        return True
    ctx.count("mon.C16.group_wrap_reentrant")
    n = ex.call[1]
    kinds = [e[0] for e in ex.events]
    prob = None
    if ex.outcome != "returned":
        prob = "call raised %s" % ex.outcome
    elif not kinds or kinds[0] != "pre_detach_children":
        prob = "first hook is not _pre_detach_children"
    else:
        last_detach = max(i for i, e in enumerate(ex.events) if e[0] == "post_detach" and e[2] == n)
        later = [i for i, e in enumerate(ex.events) if e[0] == "post_detach_children" and e[1] == n and i > last_detach]
        if not later:
            prob = "_post_detach_children not called after the last per-child detach"
        elif ex.call[0] == "setchildren" and ex.call[2] and not ("pre_attach_children" in kinds[later[0]:] and kinds[-1] == "post_attach_children"):
            prob = "attach group hooks missing"
    if prob:
        ctx.violation("C16/R6-group-wrap/reentrant-hook/%s" % ex.call[0], "hook-protocol", ex.case(), expected="per-child calls wrapped in the *_children hooks, no exception",
                      observed={"problem": prob, "events": _jsonable(ex.events[:40]), "exc": ex.excrepr})
        return False
    return True


def mon_c16_observations(ctx, ex):
    """R2 only (what each hook can observe), for calls whose pre hook restructures its parent re-entrantly."""
    if not ex.evicted:
        return True
    ctx.count("mon.C16.reentrant_observations")
    for i, ((kind, n, arg), here) in enumerate(zip(ex.events, ex.snaps)):
        if not isinstance(n, int) or not isinstance(arg, int):
            continue
        prob = None
        if kind == "pre_detach" and (here[n][0] != arg or n not in here[arg][1]):
            prob = "pre_detach: node still child of the old parent"
        elif kind in ("post_detach", "pre_attach") and (here[n][0] is not None or any(n in cs for _, cs in here)):
            prob = "%s: node is a root and in no children tuple" % kind
        elif kind == "post_attach" and (here[n][0] != arg or not here[arg][1] or here[arg][1][-1] != n):
            prob = "post_attach: node is the last child of the new parent"
        if prob:
            ctx.violation("C16/R2-%s/reentrant-hook/%s" % (kind, ex.call[0]), "hook-observation", ex.case(), expected=prob,
                          observed={"events": _jsonable(ex.events[:40]), "at": i, "snap": _jsonable(here), "evicted": _jsonable(ex.evicted)})
            return False
    return True


def mon_c18(ctx, exn, exl):
    """Lock step NodeMixin vs LightNodeMixin: same outcome, state, hook log."""
    ctx.count("mon.C18.lockstep")
    diffs = []
    if exn.outcome != exl.outcome:
        diffs.append("outcome %s vs %s" % (exn.outcome, exl.outcome))
    if exn.post != exl.post:
        diffs.append("post-state differs")
    if [tuple(e) for e in exn.events] != [tuple(e) for e in exl.events]:
        diffs.append("hook log differs")
    elif exn.snaps != exl.snaps:
        diffs.append("in-hook snapshots differ")
    if diffs and "RecursionError" in (exn.outcome, exl.outcome):
        # frame budgets differ slightly between the two; only the class and the
        # final state are comparable there
        diffs = [d for d in diffs if d.startswith("outcome") or d.startswith("post")]
    if diffs:
        ctx.violation(
            "C18/structural/%s/%s" % (exn.call[0], diffs[0].split()[0]),
            "lockstep",
            exn.case(),
            expected={"NM": {"outcome": exn.outcome, "post": _jsonable(exn.post), "events": _jsonable(exn.events[:40])}},
            observed={"LM": {"outcome": exl.outcome, "post": _jsonable(exl.post), "events": _jsonable(exl.events[:40])}},
            note="; ".join(diffs),
        )
        return False
    return True


# ============================================================= enumeration
def all_calls(k, family, maxlen=None, rep=True, nonnodes=True, itkinds=("list",)):
    """Every structural call over k labelled nodes."""
    from .gen import sequences, sequences_norep

    U = list(range(k))
    for n in U:
        for p in [None] + U:
            yield ("setparent", n, p)
        if nonnodes and base_family(family) != "LM":
            for kind in ("object", "str", "zero", "plainclass"):
                yield ("setparent", n, ("nonnode", kind))
    for n in U:
        yield ("delchildren", n)
    ml = k if maxlen is None else maxlen
    seqs = sequences if rep else sequences_norep
    for n in U:
        for xs in seqs(U, ml):
            for it in itkinds:
                yield ("setchildren", n, tuple(xs), it)
        yield ("setchildren", n, (), "noniter")
        if nonnodes and base_family(family) != "LM":
            others = [u for u in U if u != n]
            yield ("setchildren", n, (("nonnode", "object"),), "list")
            yield ("setchildren", n, (("nonnode", "plainclass"),), "list")  # has 'parent' and 'children' attributes, is no tree node
            if others:
                yield ("setchildren", n, (others[0], ("nonnode", "plainclass")), "list")
                yield ("setchildren", n, (others[0], ("nonnode", "none")), "list")
                yield ("setchildren", n, (("nonnode", "int"), others[0]), "tuple")
                yield ("setchildren", n, (others[0], others[0], ("nonnode", "str")), "list")


def fault_plans(nevents_clean, k, full=True, rng=None, multi=True, nevents_after=None):
    """Fault plans for one (state, call): once(i) for every hook position of
    the fault-free run, persistent plans per kind (and per kind x node)."""
    plans = []
    for i in range(nevents_clean):
        plans.append(("once", i))
    for kind in KINDS:
        plans.append(("persist", kind, None))
    if full:
        for kind in PRE_KINDS:
            for lab in range(k):
                plans.append(("persist", kind, lab))
    return plans
