"""Orchestrator: spawns the worker shards of one property check, merges what
they observed, decides the three-valued verdict, writes evidence and replays.

Exit codes: 0 held on everything observed, 1 violation (VIOLATION lines),
2 inconclusive (worker crashed / watchdog / coverage gate missed).
"""
import array
import importlib
import json
import os
import re
import shutil
import subprocess
import sys
import time

HERE = os.path.dirname(os.path.abspath(__file__))
VERIF = os.path.dirname(HERE)
PY = os.environ.get("VERIF_PYTHON", "/venv/bin/python")
if not os.path.exists(PY):
    PY = sys.executable

PROPS = ["C%02d" % i for i in range(1, 21)]


def load_known():
    path = os.path.join(VERIF, "known_findings.json")
    try:
        with open(path) as fh:
            data = json.load(fh)
    except FileNotFoundError:
        return []
    return data.get("findings", [])


def active_mechanisms(prop):
    return {f["mechanism"]: f for f in load_known() if f.get("property") == prop and f.get("status") == "known"}


def run_workers(prop, specs, jobs, timeout, workdir, repo):
    os.makedirs(workdir, exist_ok=True)
    pending = list(enumerate(specs))
    running = []
    results = [None] * len(specs)
    problems = []
    base_env = dict(os.environ)
    base_env.update(
        {
            "PYTHONDONTWRITEBYTECODE": "1",
            "PYTHONHASHSEED": "0",
            "VERIF_REPO": repo,
            "PYTHONPYCACHEPREFIX": os.path.join(workdir, "pyc"),
            "PYTHONWARNINGS": "ignore",
        }
    )
    base_env.pop("PYTHONPATH", None)
    t_start = time.time()
    while pending or running:
        while pending and len(running) < jobs:
            idx, spec = pending.pop(0)
            out = os.path.join(workdir, "r%d.json" % idx)
            env = dict(base_env)
            # assertion mode on: "1"; off: alternately the variable left unset (the default configuration) and an explicit "0"
            mode = spec.get("assertions_env") or ("1" if spec.get("assertions") else "0")
            if mode == "unset":
                env.pop("ANYTREE_ASSERTIONS", None)
            else:
                env["ANYTREE_ASSERTIONS"] = mode
            for k, v in (spec.get("env") or {}).items():
                env[k] = str(v)
            log = open(os.path.join(workdir, "w%d.log" % idx), "wb")
            cmd = [PY, "-B", os.path.join(HERE, "worker.py"), "--prop", prop, "--spec", json.dumps(spec), "--out", out]
            p = subprocess.Popen(cmd, cwd=workdir, env=env, stdout=log, stderr=subprocess.STDOUT)
            running.append((idx, p, out, log, time.time()))
        time.sleep(0.05)
        still = []
        for idx, p, out, log, t0 in running:
            rc = p.poll()
            if rc is None:
                if time.time() - t0 > timeout:
                    p.kill()
                    p.wait()
                    log.close()
                    problems.append("shard %d: wall-clock watchdog (%d s) fired" % (idx, timeout))
                else:
                    still.append((idx, p, out, log, t0))
                continue
            log.close()
            if rc != 0 or not os.path.exists(out):
                tail = ""
                try:
                    with open(os.path.join(workdir, "w%d.log" % idx), "rb") as fh:
                        tail = fh.read()[-1500:].decode("utf-8", "replace")
                except OSError:
                    pass
                problems.append("shard %d: worker exit %s %s" % (idx, rc, tail))
                continue
            with open(out) as fh:
                res = json.load(fh)
            if res.get("crash"):
                problems.append("shard %d: %s" % (idx, res["crash"]))
                continue
            hashes = array.array("Q")
            hp = out + ".hashes"
            if os.path.exists(hp):
                with open(hp, "rb") as fh:
                    data = fh.read()
                hashes.frombytes(data)
            res["_hashes"] = hashes
            results[idx] = res
        running = still
    return results, problems, time.time() - t_start


def merge(results):
    counters = {}
    evals = 0
    distinct = set()
    violations = {}
    known = {}
    samples = []
    exhaustive = []
    cpu = 0.0
    for r in results:
        if r is None:
            continue
        for k, v in r["counters"].items():
            counters[k] = counters.get(k, 0) + v
        evals += r["evals"]
        distinct.update(r["_hashes"])
        cpu += r.get("cpu_s", 0)
        for klass, ent in r["violations"].items():
            e = violations.setdefault(klass, {"count": 0, "witnesses": []})
            e["count"] += ent["count"]
            if len(e["witnesses"]) < 3:
                e["witnesses"].extend(ent["witnesses"][: 3 - len(e["witnesses"])])
        for mech, ent in r["known"].items():
            e = known.setdefault(mech, {"count": 0, "example": ent["example"]})
            e["count"] += ent["count"]
        for s in r["samples"]:
            if len(samples) < 12:
                samples.append(s)
        for x in r["exhaustive"]:
            if x not in exhaustive:
                exhaustive.append(x)
    return counters, evals, len(distinct), violations, known, samples, exhaustive, cpu


def library_totals(repo):
    """Functions and executable lines of <repo>/anytree, from compiling the sources (nothing is imported)."""
    funcs, lines = set(), {}
    base = os.path.join(repo, "anytree")
    for d, _, fs in os.walk(base):
        for f in fs:
            if not f.endswith(".py"):
                continue
            path = os.path.join(d, f)
            rel = os.path.relpath(path, base)
            try:
                with open(path, encoding="utf-8") as fh:
                    top = compile(fh.read(), path, "exec", dont_inherit=True)
            except (SyntaxError, ValueError, OSError):
                continue
            stack = [top]
            while stack:
                co = stack.pop()
                if co is not top:
                    funcs.add("%s:%s:%d" % (rel, co.co_qualname, co.co_firstlineno))
                for _, _, ln in co.co_lines():
                    if ln is not None:
                        lines.setdefault(rel, set()).add(ln)
                stack.extend(c for c in co.co_consts if hasattr(c, "co_code"))
    return funcs, lines


def anchor_files(prop):
    try:
        with open(os.path.join(VERIF, "properties.jsonl")) as fh:
            for ln in fh:
                rec = json.loads(ln)
                if rec.get("id") == prop:
                    return [f[len("anytree/"):] for f in rec.get("anchors", {}).get("files", []) if f.startswith("anytree/")]
    except (OSError, ValueError):
        pass
    return []


def library_reach(results, repo, prop=None):
    got_f, got_l, n = set(), {}, 0
    for r in results:
        if r is None or not r.get("reach"):
            continue
        n += 1
        got_f.update(r["reach"]["funcs"])
        for k, v in r["reach"]["lines"].items():
            got_l.setdefault(k, set()).update(v)
    if not n:
        return {"note": "sys.monitoring not available in the workers: reach not measured"}
    all_f, all_l = library_totals(repo)
    by_file = {}
    for k in sorted(all_l):
        hit = len(got_l.get(k, set()) & all_l[k])
        by_file[k] = "%d/%d" % (hit, len(all_l[k]))
    anchored = {}
    for f in anchor_files(prop) if prop else []:
        if f in all_l:
            anchored[f] = {
                "lines": by_file[f],
                "functions_not_reached": sorted(x.split(":", 1)[1] for x in all_f - got_f if x.split(":", 1)[0] == f),
                "lines_not_reached": sorted(all_l[f] - got_l.get(f, set()))[:80],
            }
    return {
        "anchored_files": anchored,
        "what": "functions / executable lines of anytree/ executed inside the worker processes of this run (sys.monitoring PY_START and LINE events, measured; class and module bodies count as functions)",
        "functions_reached": len(got_f & all_f),
        "functions_total": len(all_f),
        "lines_reached": sum(len(got_l.get(k, set()) & v) for k, v in all_l.items()),
        "lines_total": sum(len(v) for v in all_l.values()),
        "lines_by_file": by_file,
    }


def strict_json(x):
    """NaN / Infinity are not JSON: spell them as strings in evidence and replay files."""
    if isinstance(x, float) and (x != x or x in (float("inf"), float("-inf"))):
        return repr(x)
    if isinstance(x, dict):
        return {str(k): strict_json(v) for k, v in x.items()}
    if isinstance(x, (list, tuple)):
        return [strict_json(v) for v in x]
    return x


def slug(s):
    return re.sub(r"[^A-Za-z0-9_.-]+", "_", s)[:80]


def check(prop, tier="quick", seed=0, jobs=None, replay=None, repo=None, quiet=False):
    t0 = time.time()
    repo = os.path.realpath(repo or os.environ.get("VERIF_REPO", "/repo"))
    jobs = int(jobs or os.environ.get("VERIF_JOBS", 0) or min(16, os.cpu_count() or 4))
    mod = importlib.import_module("vf.props." + prop.lower())
    workdir = os.path.join(VERIF, ".work", "%s-%d" % (prop, os.getpid()))
    known_active = active_mechanisms(prop)
    try:
        if replay:
            with open(replay) as fh:
                wit = json.load(fh)
            spec = {"tier": tier, "seed": wit.get("seed", seed), "shard": 0, "nshards": 1, "assertions": wit.get("assertions", 0), "assertions_env": wit.get("assertions_env"),
                    "replay": wit, "known": sorted(known_active), "case_timeout": 120}
            spec.update(getattr(mod, "REPLAY_SPEC", {}))
            if wit.get("module"):
                spec["module"] = wit["module"]
            results, problems, _ = run_workers(prop, [spec], 1, 600, workdir, repo)
            counters, evals, nd, violations, known, samples, exh, cpu = merge(results)
            print("replay of %s: %d violation class(es)" % (replay, len(violations)))
            for klass, ent in violations.items():
                w = ent["witnesses"][0]
                print("  class   :", klass)
                print("  expected:", json.dumps(w.get("expected"))[:2000])
                print("  observed:", json.dumps(w.get("observed"))[:2000])
            for p in problems:
                print("  problem :", p)
            return 1 if violations else (2 if problems else 0)

        specs = mod.plan(tier, seed, jobs)
        zeros = 0
        for i, s in enumerate(specs):
            if s.get("assertions"):
                s.setdefault("assertions_env", "1")
            else:
                s.setdefault("assertions_env", "unset" if zeros % 2 == 0 else "0")
                zeros += 1
            s.setdefault("tier", tier)
            s.setdefault("seed", seed)
            s["known"] = sorted(known_active)
            s.setdefault("shard", i)
            s.setdefault("nshards", len(specs))
        timeout = int(os.environ.get("VERIF_WORKER_TIMEOUT", 0) or (1500 if tier == "quick" else 6 * 3600))
        results, problems, wall_workers = run_workers(prop, specs, jobs, timeout, workdir, repo)
        counters, evals, ndistinct, violations, known, samples, exhaustive, cpu = merge(results)

        # a hang must reproduce when the shard runs alone before it is called a violation
        if "hang" in violations:
            confirmed = 0
            hung = [i for i, r in enumerate(results) if r is not None and "hang" in r["violations"]][:2]
            for i in hung:
                spec = dict(specs[i])
                spec["case_timeout"] = 150
                spec["max_hangs"] = 1
                r2, p2, _ = run_workers(prop, [spec], 1, timeout, workdir + "-hang", repo)
                if r2[0] is not None and "hang" in r2[0]["violations"]:
                    confirmed += 1
                elif r2[0] is None and any("watchdog" in x for x in p2):
                    confirmed += 1  # the re-run had to be killed by the outer watchdog
            shutil.rmtree(workdir + "-hang", ignore_errors=True)
            if not confirmed:
                del violations["hang"]
                problems.append("progress watchdog fired but the shard finished when re-run alone")

        gates = {g: counters.get(g, 0) for g in getattr(mod, "GATES", [])}
        missed = [g for g, v in gates.items() if v <= 0]

        # ---- report
        lines = []
        nviol = 0
        os.makedirs(os.path.join(VERIF, "replays"), exist_ok=True)
        for n, (klass, ent) in enumerate(sorted(violations.items())):
            w = dict(ent["witnesses"][0])
            w["occurrences"] = ent["count"]
            w["repo"] = repo
            path = os.path.join(VERIF, "replays", "%s-%02d-%s.json" % (prop, n, slug(klass)))
            with open(path, "w") as fh:
                json.dump(strict_json(w), fh, indent=1, default=str)
            nviol += 1
            if nviol <= 25:
                lines.append("VIOLATION property=%s replay=%s" % (prop, path))
                if not quiet:
                    lines.append("  class=%s occurrences=%d expected=%s observed=%s" % (
                        klass, ent["count"], json.dumps(w.get("expected"), default=str)[:300],
                        json.dumps(w.get("observed"), default=str)[:600]))
        for mech, ent in sorted(known.items()):
            f = known_active.get(mech, {})
            lines.append("KNOWN-FINDING: property=%s %s: %s [seen %d times this run, e.g. %s]" % (
                prop, mech, f.get("what_fails", "?"), ent["count"], json.dumps(ent["example"]["case"], default=str)[:300]))

        if violations:
            verdict, rc = "violated", 1
        elif problems or missed or evals == 0:
            verdict, rc = "inconclusive", 2
        else:
            verdict, rc = "held", 0

        wall = time.time() - t0
        cov = {
            "evaluations": evals,
            "distinct_nontrivial": ndistinct,
            "rule": getattr(mod, "RULE", ""),
            "samples": samples or [{"note": "no case was executed"}],
            "exhaustive": bool(exhaustive) and getattr(mod, "EXHAUSTIVE_ONLY", False),
            "exhaustive_scopes": exhaustive,
            "monitor_evaluations": {k: v for k, v in sorted(counters.items()) if k.startswith("mon.")},
            "observed": {k: v for k, v in sorted(counters.items()) if not k.startswith("mon.")},
            "gates": gates,
            "gates_missed": missed,
            "known_findings_seen": {m: e["count"] for m, e in known.items()},
            "violation_classes": {k: e["count"] for k, e in violations.items()},
            "verdict": verdict,
            "problems": problems[:10],
            "workers": len(specs),
            "worker_cpu_s": round(cpu, 2),
            "repo": repo,
            "technique": getattr(mod, "TECHNIQUE", ""),
            "library_reach": library_reach(results, repo, prop),
        }
        ev = {
            "property_id": prop,
            "tier": tier,
            "seed": int(seed),
            "level": mod.LEVEL,
            "coverage": cov,
            "assumptions": list(getattr(mod, "ASSUMPTIONS", [])),
            "wall_s": round(wall, 2),
            "violations": len(violations),
        }
        # evidence/ holds what was observed on /repo itself; runs against another checkout (seeded changes) go elsewhere
        evdir = "evidence" if repo == os.path.realpath("/repo") else ".scratch_evidence"
        os.makedirs(os.path.join(VERIF, evdir), exist_ok=True)
        with open(os.path.join(VERIF, evdir, "%s.json" % prop), "w") as fh:
            json.dump(strict_json(ev), fh, indent=1, default=str, allow_nan=False)

        for ln in lines:
            print(ln)
        print("%s %s tier=%s seed=%s: %d executions, %d distinct cases, %d monitor evaluations, %.1f s wall (%.1f s cpu) -> %s" % (
            prop, mod.LEVEL, tier, seed, evals, ndistinct,
            sum(v for k, v in counters.items() if k.startswith("mon.")), wall, cpu, verdict.upper()))
        if missed:
            print("INCONCLUSIVE: coverage gates not reached: %s" % ", ".join(missed))
        for p in problems[:5]:
            print("INCONCLUSIVE: %s" % p[:1500])
        return rc
    finally:
        shutil.rmtree(workdir, ignore_errors=True)
        try:
            os.rmdir(os.path.join(VERIF, ".work"))
        except OSError:
            pass


def main(argv=None):
    import argparse

    ap = argparse.ArgumentParser(prog="check")
    ap.add_argument("prop")
    ap.add_argument("--tier", default=os.environ.get("VERIF_TIER", "quick"), choices=["quick", "thorough"])
    ap.add_argument("--seed", type=int, default=int(os.environ.get("VERIF_SEED", "0") or 0))
    ap.add_argument("--jobs", type=int, default=None)
    ap.add_argument("--replay", default=None)
    ap.add_argument("--repo", default=None)
    a = ap.parse_args(argv)
    prop = a.prop.upper()
    if prop not in PROPS:
        print("unknown property %s" % a.prop)
        return 2
    return check(prop, a.tier, a.seed, a.jobs, a.replay, a.repo)


if __name__ == "__main__":
    sys.path.insert(0, VERIF)
    sys.exit(main())
