"""Reference definitions of the read-only queries, written from the property
statements over a plain model: ``par`` (parent label or None per node) and
``ch`` (ordered child labels per node).  Independent of the library's
algorithms (recursion / sorting instead of stacks and queues)."""


def chain_up(par, n):
    """n, parent(n), ..., root."""
    out = []
    while n is not None:
        out.append(n)
        n = par[n]
    return out


def path(par, n):
    return list(reversed(chain_up(par, n)))


def depth(par, n):
    return len(chain_up(par, n)) - 1


def preorder(ch, n):
    out = [n]
    for c in ch[n]:
        out.extend(preorder(ch, c))
    return out


def preorder_iter(ch, n):
    """Non-recursive variant for deep shapes."""
    out = []
    stack = [n]
    while stack:
        x = stack.pop()
        out.append(x)
        stack.extend(reversed(ch[x]))
    return out


def postorder(ch, n):
    out = []
    stack = [(n, 0)]
    while stack:
        x, i = stack.pop()
        if i < len(ch[x]):
            stack.append((x, i + 1))
            stack.append((ch[x][i], 0))
        else:
            out.append(x)
    return out


def reldepths(ch, n):
    d = {n: 0}
    for x in preorder_iter(ch, n):
        for c in ch[x]:
            d[c] = d[x] + 1
    return d


def levelorder(ch, n):
    pre = preorder_iter(ch, n)
    d = reldepths(ch, n)
    # stable sort of the pre-order by depth: by increasing depth, within a depth
    # in the order of their parents and then sibling order
    return sorted(pre, key=lambda x: d[x])


def groups(ch, n):
    d = reldepths(ch, n)
    out = []
    for x in levelorder(ch, n):
        if d[x] == len(out):
            out.append([])
        out[d[x]].append(x)
    return out


def height(ch, n):
    d = reldepths(ch, n)
    return max(d.values())


def leaves(ch, n):
    return [x for x in preorder_iter(ch, n) if not ch[x]]


def admitted(ch, n, stop=frozenset(), maxlevel=None):
    """Set of admitted nodes of the subtree at n: relative depth < maxlevel and
    no node on the path start..node (inclusive) in the stop set."""
    out = set()
    if maxlevel is not None and maxlevel <= 0:
        return out
    stack = [(n, 0)]
    while stack:
        x, d = stack.pop()
        if x in stop:
            continue
        if maxlevel is not None and d >= maxlevel:
            continue
        out.add(x)
        for c in ch[x]:
            stack.append((c, d + 1))
    return out


def restricted(order, adm, hidden=frozenset()):
    return [x for x in order if x in adm and x not in hidden]


def restricted_groups(ch, n, adm, hidden=frozenset()):
    """One tuple per depth level that has an admitted node."""
    out = []
    for grp in groups(ch, n):
        a = [x for x in grp if x in adm]
        if not a:
            break
        out.append([x for x in a if x not in hidden])
    return out


def zigzag(grps):
    return [list(reversed(g)) if i % 2 else list(g) for i, g in enumerate(grps)]


def common_prefix(lists):
    if not lists:
        return []
    out = []
    for items in zip(*lists):
        if all(x == items[0] for x in items[1:]):
            out.append(items[0])
        else:
            break
    return out


def walk(par, s, e):
    """(upwards, common, downwards) or None when in different trees."""
    ps, pe = path(par, s), path(par, e)
    if ps[0] != pe[0]:
        return None
    cp = common_prefix([ps, pe])
    lca = cp[-1]
    up = list(reversed(ps[len(cp):]))
    down = pe[len(cp):]
    return up, lca, down


def render_rows(ch, n, style, childiter=None, maxlevel=None):
    """[(pre, fill, label)] from the statement of C09.  style = (vertical,
    cont, end); childiter maps a list of labels to the list to draw."""
    vertical, cont, end = style
    empty = " " * len(end)
    rows = []
    limit = None if maxlevel is None else max(maxlevel, 1)

    def rec(x, flags):
        d = len(flags)
        if not flags:
            rows.append(("", "", x))
        else:
            segs = [vertical if f else empty for f in flags]
            pre = "".join(segs[:-1]) + (cont if flags[-1] else end)
            fill = "".join(segs)
            rows.append((pre, fill, x))
        if limit is not None and d + 1 >= limit:
            return
        kids = list(ch[x])
        if kids and childiter is not None:
            kids = childiter(kids)
        for i, c in enumerate(kids):
            rec(c, flags + (i < len(kids) - 1,))

    rec(n, ())
    return rows
