"""Worker-side runtime shared by all property monitors.

Nothing in here imports anytree: the worker entry point (worker.py) puts the
repository under test first on sys.path and imports it; monitors receive the
modules through ``lib()``.
"""
import collections
import hashlib
import os
import random
import signal
import sys
import time

REPO = os.path.realpath(os.environ.get("VERIF_REPO", "/repo"))


class Injected(Exception):
    """Exception raised by the fault plan from inside a notification hook.

    Deliberately *not* a TreeError: it plays the role of the user's own
    exception (ReadonlyError in docs/tricks/readonly.rst)."""


class CaseTimeout(BaseException):
    """Raised by the per-case watchdog (SIGALRM)."""


class ShardAbort(BaseException):
    """Raised after too many watchdog firings in one shard: the rest of the shard is abandoned, what was
    observed so far (including the hang witnesses) is reported."""


def h64(obj):
    return int.from_bytes(hashlib.blake2b(repr(obj).encode("utf-8", "backslashreplace"), digest_size=8).digest(), "big")


_LIB = None


def lib():
    """The anytree package of the tree under test (imported once per worker)."""
    global _LIB
    if _LIB is None:
        if REPO not in sys.path[:2]:
            sys.path.insert(0, REPO)
        import anytree  # noqa

        src = os.path.realpath(anytree.__file__)
        if not src.startswith(REPO + os.sep):
            raise RuntimeError("anytree imported from %s, not from %s" % (src, REPO))
        _LIB = anytree
    return _LIB


class Ctx:
    """Collects what a shard observed: counters, distinct cases, witnesses."""

    MAX_WITNESS_PER_CLASS = 3
    MAX_CLASSES = 40

    def __init__(self, prop, spec):
        self.prop = prop
        self.spec = spec
        self.tier = spec.get("tier", "quick")
        self.seed = int(spec.get("seed", 0))
        self.shard = spec.get("shard", 0)
        self.nshards = spec.get("nshards", 1)
        self.assertions = int(spec.get("assertions", 0))
        self.counters = collections.Counter()
        self.evals = 0
        self.distinct = set()
        self.violations = {}  # class -> {"count": n, "witnesses": [...]}
        self.known = {}  # mechanism -> {"count": n, "example": {...}}
        self.samples = []
        self._sample_every = 1
        self.exhaustive = []  # descriptions of completely enumerated scopes
        self.t0 = time.time()
        self.case_timeout = int(spec.get("case_timeout", 60))
        self.hangs = 0
        self.case_extra = None  # dict merged into the case of every witness (callables are evaluated)
        self.last_sample = None  # description of the case in progress (for the progress watchdog)
        self._watchdog = False

    # ------------------------------------------------------- progress watchdog
    def start_watchdog(self):
        """Every registered case re-arms a SIGALRM; when the worker registers no
        new case for ``case_timeout`` seconds CaseTimeout is raised in the main
        thread: the case in progress is reported and, if the shard again makes
        no progress when the orchestrator re-runs it alone, called a hang."""
        def fire(signum, frame):
            raise CaseTimeout()

        signal.signal(signal.SIGALRM, fire)
        signal.alarm(self.case_timeout)
        self._watchdog = True

    def stop_watchdog(self):
        if self._watchdog:
            signal.alarm(0)
            self._watchdog = False

    def report_hang(self, case=None, may_abort=True):
        self.hangs += 1
        self.violation("hang", "watchdog", case if case is not None else (self.last_sample or {"note": "case in progress was not sampled"}),
                       expected="library call returns", observed="no progress within %d s" % self.case_timeout)
        if may_abort and self.hangs >= int(self.spec.get("max_hangs", 2)):
            raise ShardAbort()

    # ------------------------------------------------------------------ rng
    def rng(self, *tag):
        return random.Random("%s/%s/%s/%s" % (self.seed, self.prop, self.shard, "/".join(map(str, tag))))

    def mine(self, index):
        """Static partition of an enumeration among the shards."""
        return index % self.nshards == self.shard

    # ------------------------------------------------------------- counting
    def count(self, name, k=1):
        self.counters[name] += k

    def case(self, key, nontrivial=True, sample=None):
        self.evals += 1
        if self._watchdog:
            signal.alarm(self.case_timeout)
        self.last_sample = sample if sample is not None else {"case_key": repr(key)[:400]}
        if nontrivial:
            self.distinct.add(h64(key))
        if sample is not None:
            n = self.evals
            if len(self.samples) < 4:
                self.samples.append(sample)
            elif n % self._sample_every == 0 and len(self.samples) < 10:
                self.samples.append(sample)
                self._sample_every *= 7

    # ------------------------------------------------------------ verdicts
    def violation(self, klass, monitor, case, expected=None, observed=None, note=None):
        self.counters["violations"] += 1
        if self.case_extra and isinstance(case, dict):
            case = dict(case)
            for k, v in self.case_extra.items():
                case[k] = v() if callable(v) else v
        ent = self.violations.get(klass)
        if ent is None:
            if len(self.violations) >= self.MAX_CLASSES:
                klass = "other"
                ent = self.violations.setdefault(klass, {"count": 0, "witnesses": []})
            else:
                ent = self.violations[klass] = {"count": 0, "witnesses": []}
        ent["count"] += 1
        if len(ent["witnesses"]) < self.MAX_WITNESS_PER_CLASS:
            ent["witnesses"].append(
                {
                    "property": self.prop,
                    "monitor": monitor,
                    "class": klass,
                    "assertions": self.assertions,
                    "assertions_env": self.spec.get("assertions_env"),
                    "debug_logging": getattr(self, "debug_logging", False),
                    "seed": self.seed,
                    "tier": self.tier,
                    "case": case,
                    "expected": expected,
                    "observed": observed,
                    "note": note,
                }
            )

    def known_finding(self, mechanism, case, detail=None):
        ent = self.known.get(mechanism)
        if ent is None:
            ent = self.known[mechanism] = {"count": 0, "example": {"case": case, "detail": detail}}
        ent["count"] += 1

    # ------------------------------------------------------------ watchdog
    def guard(self, case):
        return _Guard(self, case)

    def result(self):
        return {
            "prop": self.prop,
            "shard": self.shard,
            "assertions": self.assertions,
            "counters": dict(self.counters),
            "evals": self.evals,
            "ndistinct": len(self.distinct),
            "violations": self.violations,
            "known": self.known,
            "samples": self.samples,
            "exhaustive": self.exhaustive,
            "cpu_s": round(time.time() - self.t0, 3),
            "hangs": self.hangs,
        }


class _Guard:
    """Per-case scope: a CaseTimeout (progress watchdog) or an exception nobody
    asked for that escapes from library code inside the scope is recorded as a
    witness for this case and the worker carries on with the next case.

    A library call on a forest of a dozen nodes takes micro-seconds; the
    watchdog fires after ``case_timeout`` seconds (default 60 s) without
    progress.  The orchestrator re-runs the shard alone and only then calls it
    a violation (class ``hang``).  Everything else about time is inconclusive."""

    def __init__(self, ctx, case):
        self.ctx = ctx
        self.case = case

    def __enter__(self):
        if self.ctx._watchdog:
            signal.alarm(self.ctx.case_timeout)
        self.ctx.last_sample = self.case
        return self

    def __exit__(self, et, ev, tb):
        if self.ctx._watchdog:
            signal.alarm(self.ctx.case_timeout)
        if et is CaseTimeout:
            self.ctx.report_hang(self.case)
            return True
        if et is not None and issubclass(et, Exception):
            where = library_origin(tb)
            if where is not None:
                # an exception nobody asked for escaped from library code
                self.ctx.violation(
                    "unexpected-exception/%s@%s" % (et.__name__, where[0]),
                    "no-unexpected-exception",
                    self.case,
                    expected="no exception from the library here",
                    observed={"exception": "%s: %s" % (et.__name__, str(ev)[:300]), "raised_in": "%s:%s (%s)" % where},
                )
                return True
        return False


def library_origin(tb):
    """(file, line, function) of the innermost traceback frame when, walking
    from the innermost frame outwards, a frame of /repo/anytree comes before
    any harness frame; else None (the harness itself is at fault)."""
    frames = []
    while tb is not None:
        frames.append((tb.tb_frame.f_code.co_filename, tb.tb_lineno, tb.tb_frame.f_code.co_name))
        tb = tb.tb_next
    libdir = os.path.join(REPO, "anytree") + os.sep
    verif = os.path.dirname(os.path.dirname(os.path.abspath(__file__))) + os.sep
    for fn, line, func in reversed(frames):
        if fn.startswith(libdir):
            return (fn[len(REPO) + 1:], line, func)
        if fn.startswith(verif):
            return None
    return None


def excname(exc):
    """Exact class name of an exception (module-qualified for non builtins)."""
    t = type(exc)
    if t.__module__ in ("builtins",):
        return t.__name__
    return "%s.%s" % (t.__module__, t.__name__)
