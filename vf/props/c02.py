"""C02 - attach, move, detach and children assignment: exact effect, exact refusal."""
from . import forest_engine as E

LEVEL = "exploration"
TECHNIQUE = "history + executable reference model: outcome class and complete post-state of every fault-free call compared with a sequential model, exhaustive small scope"
RULE = (
    "case = (family, assertion mode, forest state, call); every labelled ordered forest over k<=4 nodes x every parent assignment, children "
    "deletion and children assignment over all sequences with repetition (thorough: k=5 repetition-free), constructors, plus random "
    "histories; distinct = hash of the case tuple; trivial = single-node non-children call"
)
ASSUMPTIONS = [
    "re-entrant hooks are exercised only in the restricted form 'a _pre_attach/_pre_detach hook of a parent assignment detaches another child of its parent argument'; the expected effect is the composition of the nested and the outer call",
    "LightNodeMixin classes are not given non-node arguments (nothing is claimed for them)",
    "refused calls are compared on exception class only (their post-state is C03's business)",
]
GATES = [
    "mon.C02.deep_chain", "mon.C02.wide_node",
    "mon.C02.model", "C02.expected.ok", "C02.expected.noop", "C02.expected.TreeError", "C02.expected.LoopError",
    "move.leaving_2plus_siblings", "move.between_trees", "setchildren.steals_from_other_parent",
    "setchildren.reorders_or_keeps_some", "setchildren.takes_descendant", "ctor.cases", "mon.C02.reentrant",
]
MONITORS = ("C02",)


def plan(tier, seed, jobs):
    return E.plan_shards(tier, seed, jobs)


def run(ctx):
    E.Engine(ctx, MONITORS, faults=False, hist_faults=True).run()
    from . import ctor, deepchain

    ctor.run(ctx)
    deepchain.run(ctx, "C02")
    from . import widenode

    widenode.run(ctx, "C02")


def replay(ctx, wit):
    if wit.get("case", {}).get("wide_node"):
        from . import widenode

        ctx.case(("replay",))
        return widenode.run(ctx, "C02")
    if wit.get("case", {}).get("deep_chain"):
        from . import deepchain

        ctx.case(("replay",))
        return deepchain.run(ctx, "C02")
    if wit.get("monitor", "").startswith("ctor"):
        from . import ctor

        return ctor.replay(ctx, wit)
    E.replay(ctx, wit, MONITORS)
