"""C20 - a symlink node has its own tree position and forwards the rest to its target."""
from .. import gen
from .. import model as M

LEVEL = "exploration"
TECHNIQUE = "history monitor with a shadow attribute store per final target (every alias must read the last value written through any alias, the link's own __dict__ must never gain a forwarded name) and the structural reference model over link and target positions"
RULE = (
    "case = one step of an interleaved history over a forest of ordinary nodes, links, links to links and links into other trees: attribute write/read through a random alias, "
    "link construction with keyword attributes, structural call on a link or a target (with and without hook faults); after every step all aliases x all tracked names are read; "
    "distinct = hash of (history id, step); trivial = none"
)
ASSUMPTIONS = [
    "attribute names are identifiers that are not defined on the node classes (class-level names such as separator or depth are resolved by Python before __getattr__)",
    "attribute deletion through a link is not part of the statement and is not generated",
]
GATES = ["mon.C20.shadow", "mon.C20.structure", "C20.link_to_link", "C20.link_other_tree", "C20.ctor_kwargs", "C20.ctor_kwargs_on_link_target", "C20.write_via_link", "C20.write_via_target",
         "C20.missing_attr_raises", "C20.struct_on_link", "C20.struct_on_target", "C20.veto", "C20.falsy_target", "C20.property_target", "C20.equal_but_distinct_value", "C20.target_reassigned", "C20.refused_by_target", "C20.target_not_in_instance_dict", "C20.self_referential_value"]

NAMES = ["foo", "bar", "baz", "x1", "value_", "lng", "k9", "_p", "__q", "name", "été", "data", "t", "get", "tar", "a",
         # names that merely start with / contain one of the three structural names
         "parent_id", "parents", "children_count", "target_path", "my_target", "grandparent"]


def plan(tier, seed, jobs):
    n = max(2, min(16, jobs))
    return [{"assertions": i % 2, "shard": i, "nshards": n, "recursionlimit": 300} for i in range(n)]


class Hist:
    def __init__(self, ctx, rng, hid):
        from .. import forest as F

        self.F = F
        self.ctx = ctx
        self.rng = rng
        self.hid = hid
        self.nodes = []
        self.target_of = {}  # label -> label of direct target (links only)
        self.shadow = {}  # final target label -> {name: value}
        self.readonly = set()  # labels of targets whose class makes 'k9' a read-only property
        self.log = []
        k0 = rng.randint(2, 4)
        for i in range(k0):
            self.add_plain()
        self.rec = F.Rec(self.nodes)

    # ------------------------------------------------------------- universe
    def add_plain(self):
        F = self.F
        i = len(self.nodes)
        r = self.rng.random()
        if r < 0.4:
            n = F.HNode("p%d" % i)
            self.shadow[i] = {"name": "p%d" % i}
        elif r < 0.55:
            n = F.FalsyNode("p%d" % i)  # a target that is falsy (defines __bool__/__len__) is still a target
            self.shadow[i] = {"name": "p%d" % i}
            self.ctx.count("C20.falsy_target")
        elif r < 0.8:
            n = F.PropNode("p%d" % i)  # 'lng' is a property with setter, 'k9' a read-only property on the target's class
            self.shadow[i] = {"name": "p%d" % i, "k9": "RO"}
            self.readonly.add(i)
            self.ctx.count("C20.property_target")
        elif r < 0.9:
            n = F.FalsyAny(name="p%d" % i)  # falsy while it has no children
            self.shadow[i] = {"name": "p%d" % i}
            self.ctx.count("C20.falsy_target")
        else:
            # a name keeps Node.__repr__ (used in LoopError messages of mixed trees) working
            n = F.HAny(name="p%d" % i)
            self.shadow[i] = {"name": "p%d" % i}
        self.nodes.append(n)
        self.log.append(["plain", type(n).__name__])
        return i

    def final(self, i):
        while i in self.target_of:
            i = self.target_of[i]
        return i

    def chain(self, i):
        out = [i]
        while i in self.target_of:
            i = self.target_of[i]
            out.append(i)
        return out

    def add_link(self):
        F = self.F
        rng = self.rng
        i = len(self.nodes)
        t = rng.randrange(i)
        kw = {}
        use_kw = rng.random() < 0.6
        cls = F.HSym if (use_kw or rng.random() < 0.5) else F.LINK_VARIANTS[rng.choice(sorted(F.LINK_VARIANTS))]
        if cls is not F.HSym and cls is not F.HSymMixin:
            self.ctx.count("C20.target_not_in_instance_dict")
        if use_kw and cls is F.HSym:
            for _ in range(rng.randint(1, 2)):
                nm = rng.choice(NAMES)
                if nm == "k9" and self.final(t) in self.readonly:
                    continue  # the target's class refuses that assignment (read-only property)
                kw[nm] = ("ctor", i, rng.randrange(100))
        parent = None
        if rng.random() < 0.5:
            parent = rng.randrange(i)
        self.log.append(["link", cls.__name__, t, parent, sorted(kw)])
        pre = self.rec.snapshot()
        n = cls(self.nodes[t], parent=None if parent is None else self.nodes[parent], **kw)
        self.rec.adopt(n)
        self.target_of[i] = t
        if t in self.target_of:
            self.ctx.count("C20.link_to_link")
        if kw:
            self.ctx.count("C20.ctor_kwargs")
            if t in self.target_of:
                self.ctx.count("C20.ctor_kwargs_on_link_target")
            self.shadow[self.final(i)].update(kw)
        # structure: exactly "new detached node; parent = p"
        exp = M.ch_of(pre) + ((),)
        if parent is not None:
            _, exp, _ = M.model_call(exp, ("setparent", i, parent), "NM")
        return self.expect_structure(exp, "ctor")

    # ---------------------------------------------------------------- checks
    def case(self):
        return {"history": self.hid, "log": list(self.log)}

    def expect_structure(self, exp_ch, what):
        self.ctx.count("mon.C20.structure")
        snap = self.rec.snapshot()
        if snap != M.snap_of(exp_ch):
            self.ctx.violation("C20/structure/%s" % what, "structural-model", self.case(), expected=self.F._jsonable(M.snap_of(exp_ch)), observed=self.F._jsonable(snap))
            return False
        return True

    def check_shadow(self):
        ctx = self.ctx
        ctx.count("mon.C20.shadow")
        for i, n in enumerate(self.nodes):
            fin = self.final(i)
            sh = self.shadow[fin]
            if i in self.target_of:
                own = set(vars(n)) & set(NAMES)  # private bookkeeping of the library may live there, user attributes may not
                if own:
                    ctx.violation("C20/link-dict-gained/%s" % type(n).__name__, "shadow-store", self.case(), expected="link __dict__ holds only target and bookkeeping",
                                  observed={"link": i, "names": sorted(own)})
                    return False
                if n.target is not self.nodes[self.target_of[i]]:
                    ctx.violation("C20/target-changed", "shadow-store", self.case(), expected=self.target_of[i], observed="other object")
                    return False
            for name in NAMES:
                same_obj = True
                try:
                    got = getattr(n, name)
                    v = ("val", got)
                    if name in sh and isinstance(sh[name], (list, dict, bool, int, float)):
                        same_obj = got is sh[name] and type(got) is type(sh[name])
                except AttributeError:
                    v = ("missing",)
                    ctx.count("C20.missing_attr_raises")
                except BaseException as e:  # noqa: B902
                    v = ("exc", type(e).__name__)
                exp = ("val", sh[name]) if name in sh else ("missing",)
                if v != exp or not same_obj:
                    ctx.violation("C20/forwarding/%s" % ("link" if i in self.target_of else "target"), "shadow-store", self.case(),
                                  expected={"node": i, "name": name, "value": repr(exp)}, observed=repr(v))
                    return False
        return True

    # ----------------------------------------------------------------- steps
    def step(self):
        rng = self.rng
        F = self.F
        ctx = self.ctx
        r = rng.random()
        k = len(self.nodes)
        if r < 0.18 and k < 10:
            if rng.random() < 0.75:
                ok = self.add_link()
            else:
                self.add_plain()
                self.rec = F.Rec(self.nodes)
                ok = True
            return ok and self.check_shadow()
        if r < 0.22 and self.target_of:
            # re-point a link: from now on it forwards to the new target (also for links that point at this link)
            i = rng.choice(sorted(self.target_of))
            cands = [t for t in range(k) if i not in self.chain(t)]  # never a cycle of links
            if cands:
                t = rng.choice(cands)
                self.log.append(["retarget", i, t])
                ctx.count("C20.target_reassigned")
                self.nodes[i].target = self.nodes[t]
                self.target_of[i] = t
                return self.check_shadow()
        if r < 0.55:
            i = rng.randrange(k)
            name = rng.choice(NAMES)
            if rng.random() < 0.35:
                # equal-but-distinct objects: the target must hold the object written last, not an equal older one
                val = rng.choice([[1], [1], [], {"k": 1}, True, 1, 1.0, 0, 0.0, False, "s", ("t",)])
                if isinstance(val, (list, dict)):
                    val = type(val)(val)  # a fresh object each time
                self.ctx.count("C20.equal_but_distinct_value")
            else:
                val = ("w", len(self.log), rng.randrange(1000))
            self.log.append(["write", i, name])
            pre = self.rec.snapshot()
            if name == "k9" and self.final(i) in self.readonly:
                # the target refuses the assignment: the refusal must come through, nothing may be stored anywhere
                ctx.count("C20.refused_by_target")
                try:
                    setattr(self.nodes[i], name, val)
                    ctx.violation("C20/forwarding/refused-assignment-swallowed", "shadow-store", self.case(), expected="AttributeError from the target's read-only property", observed="no exception")
                    return False
                except AttributeError:
                    pass
                return self.expect_structure(M.ch_of(pre), "attribute-write-moved-nodes") and self.check_shadow()
            setattr(self.nodes[i], name, val)
            self.shadow[self.final(i)][name] = val
            ctx.count("C20.write_via_link" if i in self.target_of else "C20.write_via_target")
            if self.final(i) != i and self.root(self.final(i)) != self.root(i):
                ctx.count("C20.link_other_tree")
            return self.expect_structure(M.ch_of(pre), "attribute-write-moved-nodes") and self.check_shadow()
        # structural call on a link or a target
        pre = self.rec.snapshot()
        par = [p for p, _ in pre]
        n = rng.randrange(k)
        op = rng.random()
        if op < 0.6:
            call = ("setparent", n, rng.choice([None] + list(range(k))))
        elif op < 0.75:
            call = ("delchildren", n)
        else:
            pool = [x for x in range(k) if x not in M.ancestors_or_self(par, n)] if rng.random() < 0.8 else list(range(k))
            rng.shuffle(pool)
            call = ("setchildren", n, tuple(pool[: rng.randint(0, 3)]), "list")
        planspec = ("none",)
        if rng.random() < 0.15:
            planspec = ("once", 0)
        self.log.append(["struct", F._jsonable(call), F._jsonable(planspec)])
        involved = [n] + [x for x in (list(call[2]) if call[0] == "setchildren" else [call[2]] if call[0] == "setparent" else []) if isinstance(x, int)]
        if any(x in self.target_of for x in involved):
            ctx.count("C20.struct_on_link")
        if any(x in self.target_of.values() for x in involved):
            ctx.count("C20.struct_on_target")
        ex = F.run_call(self.rec, "NM", call, F.Plan(planspec), snaps_on=False)
        exp_out, exp_ch, _ = M.model_call(M.ch_of(pre), call, "NM")
        if ex.faults:
            ctx.count("C20.veto")
            # first hook of the call vetoed: nothing may have changed (C03 on links)
            if ex.faults[0][1] in F.PRE_KINDS and ex.events and ex.faults[0][0] == 0:
                exp_ch = M.ch_of(pre)
            else:
                exp_ch = M.ch_of(ex.post) if not M.invariant(ex.post) else None
        elif exp_out in ("ok", "noop"):
            if ex.outcome != "returned":
                ctx.violation("C20/structure/outcome", "structural-model", self.case(), expected=exp_out, observed=ex.excrepr)
                return False
        else:
            if ex.outcome != exp_out:
                ctx.violation("C20/structure/outcome", "structural-model", self.case(), expected=exp_out, observed=ex.outcome)
                return False
            exp_ch = M.ch_of(ex.post) if not M.invariant(ex.post) else None  # refused: state is C03's business (known findings)
        if exp_ch is None:
            ctx.violation("C20/structure/invariant", "forest-invariant", self.case(), expected="invariant I", observed=M.invariant(ex.post)[:4])
            return False
        return self.expect_structure(exp_ch, call[0]) and self.check_shadow()

    def root(self, i):
        snap = self.rec.snapshot()
        steps = 0
        while snap[i][0] is not None and steps < len(snap):
            i = snap[i][0]
            steps += 1
        return i


def run_history(ctx, hid, rng, steps):
    h = Hist(ctx, rng, hid)
    if not h.check_shadow():
        return False
    for s in range(steps):
        ctx.case((hid, s), sample=h.case() if (s == steps - 1 and ctx.evals % 4001 < 40) else None)
        with ctx.guard(h.case()):
            if not h.step():
                return False
            continue
        return False
    return True


def run(ctx):
    T = ctx.tier == "thorough"
    nh = (200000 if T else 2000) // ctx.nshards + 1
    for i in range(nh):
        hid = [ctx.seed, ctx.shard, i]
        run_history(ctx, hid, ctx.rng("hist", i), (100 if T else 40))
    # directed: constructor keywords on every kind of target
    from .. import forest as F
    from anytree import PreOrderIter

    # directed: a link to a LightNodeMixin-based target that has children - the link's children are its own
    for depth in (1, 2):
        t = F.LM("lt")
        kids = [F.LM("k%d" % i, parent=t) for i in range(2)]
        link = F.HSymMixin(t)
        for d in range(depth - 1):
            link = F.HSymMixin(link)
        ctx.case(("directed-lm", depth))
        ctx.count("mon.C20.structure")
        # is_leaf and height are asked first, on a link whose children were never looked at
        got = {"is_leaf": link.is_leaf, "height": link.height}
        got.update({"descendants": len(link.descendants), "size": link.size, "preorder": len(list(PreOrderIter(link))), "leaves": len(link.leaves), "children": len(link.children)})
        want = {"is_leaf": True, "height": 0, "descendants": 0, "size": 1, "preorder": 1, "leaves": 1, "children": 0}
        if got != want or [c.parent is t for c in kids] != [True, True]:
            ctx.violation("C20/structure/link-shows-targets-children", "structural-model", {"directed": "link chain of depth %d to a LightNodeMixin target with two children" % depth}, expected=want, observed=got)

    for depth in (0, 1, 2, 3, 12, 40):
        t = F.HNode("base")
        chain = [t]
        for d in range(depth):
            chain.append(F.HSymMixin(chain[-1]) if d % 2 else F.HSym(chain[-1]))
        link = F.HSym(chain[-1], baz=18)
        ctx.case(("directed", depth))
        ctx.count("mon.C20.shadow")
        case = {"directed": "SymlinkNode(<link chain of depth %d>, baz=18); chain[1].baz = 9" % depth}
        bad = [i for i, c in enumerate(chain[1:] + [link]) if "baz" in vars(c)]
        if bad or getattr(t, "baz", None) != 18:
            ctx.violation("C20/ctor-kwargs/depth%d" % min(depth, 1), "shadow-store", case, expected="baz stored on the final target only", observed={"links_with_own_attrs": bad, "target_has": getattr(t, "baz", None)})
            continue
        # a value that refers back to the link (stored through it), then a read of a name the target lacks
        link.alias = link
        ctx.count("C20.self_referential_value")
        try:
            link.no_such_attribute_anywhere  # noqa: B018
            got = "returned"
        except AttributeError:
            got = "AttributeError"
        except BaseException as e:  # noqa: B902
            got = type(e).__name__
        if got != "AttributeError" or getattr(t, "alias", None) is not link:
            ctx.violation("C20/forwarding/missing-attribute-with-self-reference", "shadow-store", case, expected="AttributeError; alias stored on the final target", observed=got)
            continue
        if depth:
            chain[1].baz = 9
            vals = [getattr(c, "baz", "missing") for c in chain + [link]]
            if vals != [9] * len(vals):
                ctx.violation("C20/ctor-kwargs/shadowing", "shadow-store", case, expected=[9] * len(vals), observed=vals)


def replay(ctx, wit):
    import random

    c = wit["case"]
    ctx.case(("replay",))
    if "history" in c:
        seed, shard, i = c["history"]
        rng = random.Random("%s/%s/%s/%s" % (seed, "C20", shard, "hist/%d" % i))
        run_history(ctx, c["history"], rng, 100)
    else:
        run(ctx)
