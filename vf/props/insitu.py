"""C01, second workload source: the repository's own tests and doctests are
re-run with the public parent/children properties of both mixins wrapped by a
monitor that evaluates the forest invariant over every node it has ever seen
whenever the *outermost* structural call returns or raises.

Only the monitor's verdicts count here, not the test results.
"""
import os
import sys


class Monitor:
    def __init__(self, ctx):
        self.ctx = ctx
        self.depth = 0
        self.nodes = []
        self.ids = set()
        self.current_test = None
        self.reported = 0

    def register(self, n):
        if n is not None and id(n) not in self.ids:
            self.ids.add(id(n))
            self.nodes.append(n)

    def check(self, what):
        ctx = self.ctx
        ctx.count("mon.C01.insitu_invariant")
        # close the registry under parent/children
        i = 0
        while i < len(self.nodes):
            n = self.nodes[i]
            i += 1
            try:
                p = n.parent
                cs = n.children
            except Exception:  # noqa: B902 - half-initialised objects of the tests
                continue
            if p is not None and hasattr(p, "children"):
                self.register(p)
            for c in cs:
                if hasattr(c, "parent"):
                    self.register(c)
        limit = len(self.nodes) + 1
        for n in self.nodes:
            try:
                p = n.parent
                cs = n.children
            except Exception:  # noqa: B902
                continue
            prob = None
            seen = set()
            for c in cs:
                if id(c) in seen:
                    prob = "child listed twice"
                seen.add(id(c))
                if getattr(c, "parent", None) is not n:
                    prob = "child's parent is another node"
            if p is not None:
                k = sum(1 for x in p.children if x is n)
                if k != 1:
                    prob = "node appears %d times in its parent's children" % k
            x, steps = n, 0
            while x is not None and steps <= limit:
                x = x.parent
                steps += 1
            if steps > limit:
                prob = "parent chain does not end"
            if prob:
                if self.reported < 5:
                    self.reported += 1
                    ctx.violation("C01/insitu/%s" % prob.replace(" ", "-"), "insitu-forest-invariant",
                                  {"test": self.current_test, "after": what, "node": repr(n)[:80]}, expected="invariant I over all registered nodes", observed=prob)
                return

    def wrap(self, cls):
        mon = self
        for attr in ("parent", "children"):
            # the property object may live on a (private) base class of the mixin
            prop = next(k.__dict__[attr] for k in cls.__mro__ if attr in k.__dict__)

            def make(prop, attr):
                def fset(self, value):
                    mon.register(self)
                    mon.depth += 1
                    try:
                        prop.fset(self, value)
                    finally:
                        mon.depth -= 1
                        if mon.depth == 0:
                            mon.ctx.count("insitu.outermost_calls")
                            mon.check("%s assignment" % attr)

                def fdel(self):
                    mon.register(self)
                    mon.depth += 1
                    try:
                        prop.fdel(self)
                    finally:
                        mon.depth -= 1
                        if mon.depth == 0:
                            mon.ctx.count("insitu.outermost_calls")
                            mon.check("%s deletion" % attr)

                return property(prop.fget, fset, fdel if prop.fdel else None, prop.__doc__)

            setattr(cls, attr, make(prop, attr))


class Plugin:
    def __init__(self, mon):
        self.mon = mon

    def pytest_runtest_setup(self, item):
        self.mon.current_test = item.nodeid
        self.mon.ctx.count("insitu.tests_run")

    def pytest_runtest_teardown(self, item):
        # keep the registry small: judged per test
        self.mon.nodes = []
        self.mon.ids = set()


def run(ctx):
    """Run tests + doctests of the repository under the wrapper (shard 0 of each mode only)."""
    import pytest
    from ..common import REPO
    from anytree import LightNodeMixin, NodeMixin

    mon = Monitor(ctx)
    mon.wrap(NodeMixin)
    mon.wrap(LightNodeMixin)
    cwd = os.getcwd()
    args = [
        os.path.join(REPO, "tests"), os.path.join(REPO, "anytree"), os.path.join(REPO, "docs"),
        "--rootdir", REPO, "-c", os.devnull, "-q", "-p", "no:cacheprovider", "--doctest-modules", "--doctest-glob=*.rst",
        "--continue-on-collection-errors", "-x" if False else "-q", "--no-header", "-W", "ignore", "--basetemp", os.path.join(cwd, "pt"),
        "--confcutdir", REPO, "--deselect", "tests/test_dotexport.py", "-o", "python_files=test_*.py",
    ]
    old_stdout = sys.stdout
    try:
        sys.stdout = open(os.path.join(cwd, "pytest.out"), "w")
        rc = pytest.main(args, plugins=[Plugin(mon)])
    finally:
        sys.stdout.close()
        sys.stdout = old_stdout
    ctx.count("insitu.pytest_exit_%s" % int(rc))
    ctx.case(("insitu", ctx.assertions), sample={"workload": "repository tests + doctests under the property wrapper", "tests_run": ctx.counters["insitu.tests_run"],
                                                  "outermost_calls": ctx.counters["insitu.outermost_calls"]})
