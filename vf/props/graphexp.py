"""Shared oracle for the DOT (C12) and Mermaid (C13) exporters."""
import os
import re
import warnings

from .. import gen
from .. import ref as R


def esc(s):
    """Independent escaper: every double quote and backslash gets a backslash."""
    out = []
    for c in str(s):
        if c == '"' or c == "\\":
            out.append("\\")
        out.append(c)
    return "".join(out)


def parse_quoted(line, pos):
    """line[pos] is '"': returns (unescaped text, index after closing quote) or None."""
    if pos >= len(line) or line[pos] != '"':
        return None
    i = pos + 1
    out = []
    while i < len(line):
        c = line[i]
        if c == "\\":
            if i + 1 >= len(line):
                return None
            out.append(line[i + 1])
            i += 2
            continue
        if c == '"':
            return "".join(out), i + 1
        out.append(c)
        i += 1
    return None


def declared(ch, s, stop, hidden, maxlevel):
    adm = R.admitted(ch, s, stop, maxlevel)
    return [x for x in R.preorder_iter(ch, s) if x in adm and x not in hidden]


def expected_edges(ch, decl):
    dset = set(decl)
    return [(p, c) for p in decl for c in ch[p] if c in dset]


def k5_surplus(ch, s, stop, hidden, maxlevel, decl):
    """Edges the current DOT exporter additionally emits: declared parent (at
    depth < maxlevel-1) -> child for which stop is true and filter_ is true."""
    d = R.reldepths(ch, s)
    out = []
    for p in decl:
        if maxlevel is not None and d[p] >= maxlevel - 1:
            continue
        for c in ch[p]:
            if c in stop and c not in hidden:
                out.append((p, c))
    return out



def phase2_norm(phase2):
    """phase2 as a dict: stop, hidden (new answers of the predicates), optional maxlevel (attribute reassigned on the
    exporter object), rename {label: new name}, move (a, b) = a.parent = b, abort (an iteration aborted by a raising
    user function before the verified one)."""
    if phase2 is None:
        return None
    if isinstance(phase2, dict):
        d = dict(phase2)
    else:
        d = {"stop": phase2[0], "hidden": phase2[1]}
    d["stop"] = frozenset(d.get("stop", ()))
    d["hidden"] = frozenset(d.get("hidden", ()))
    if d.get("rename"):
        d["rename"] = {int(k): v for k, v in d["rename"].items()}
    return d


def phase2_json(d):
    if d is None:
        return None
    out = {"stop": sorted(d["stop"]), "hidden": sorted(d["hidden"])}
    for k in ("maxlevel", "move", "abort"):
        if k in d:
            out[k] = d[k]
    if d.get("rename"):
        out["rename"] = {str(k): v for k, v in d["rename"].items()}
    return out


def apply_phase2_to_tree(d, nodes, names, ch):
    """Renames and moves between the two iterations; returns (names2, ch2)."""
    names2 = list(names)
    for x, new in (d.get("rename") or {}).items():
        names2[x] = new
        nodes[x].name = new
    ch2 = [list(c) for c in ch]
    if d.get("move"):
        a, b = d["move"]
        nodes[a].parent = nodes[b]
        for c in ch2:
            if a in c:
                c.remove(a)
        ch2[b].append(a)
    return names2, ch2


class AbortIteration(Exception):
    pass

# ------------------------------------------------------------------ DOT
def check_dot(ctx, prop, exporter_kind, lib, nodes, idmap, names, par, ch, s, stop, hidden, maxlevel, custom, case, known, phase2=None):
    """phase2 = (stop2, hidden2): after the first verified iteration the predicates' answers change (they read a
    mutable set, as state-dependent user predicates do) and the same exporter object is iterated again."""
    from anytree.exporter import DotExporter, UniqueDotExporter
    import anytree.dotexport

    lab = lambda n: idmap[id(n)]  # noqa: E731
    phase2 = phase2_norm(phase2)
    kw = {}
    cur = {"stop": stop, "hidden": hidden, "abort": None}
    if stop or phase2:
        kw["stop"] = lambda n: lab(n) in cur["stop"]
    if hidden or phase2:
        kw["filter_"] = lambda n: lab(n) not in cur["hidden"]
    if maxlevel is not None:
        kw["maxlevel"] = maxlevel
        if (s + len(stop) + len(hidden)) % 3 == 0:
            from .c06 import int_like

            kw["maxlevel"] = int_like(maxlevel)  # a bool / an int-subclass instance with the same value
            ctx.count("%s.maxlevel_int_subclass" % prop)
    indent = 4
    graph, gname = "digraph", "tree"
    options = []
    edgetype = "->"
    namefn = None
    nattr = None
    eattr = None
    if custom:
        indent = custom["indent"]
        graph, gname = custom["graph"], custom["name"]
        options = custom["options"]
        kw.update(indent=indent, graph=graph, name=gname, options=options)
        if custom.get("namefunc"):
            namefn = lambda x: "%s:%d" % (cur.get("names", names)[x], x)  # noqa: E731
            kw["nodenamefunc"] = lambda n: "%s:%d" % (n.name, lab(n))
        if custom.get("nattr"):
            npartial = custom["nattr"] == "partial"  # the user function declines (returns None) for some nodes
            nattr = lambda x: None if npartial and x % 3 == 0 else 'shape=box, label="%s"' % (cur.get("names", names)[x],)  # noqa: E731

            def _nattr(n):
                if cur["abort"] is not None and lab(n) == cur["abort"]:
                    raise AbortIteration()
                if npartial and lab(n) % 3 == 0:
                    return None
                return 'shape=box, label="%s"' % (n.name,)

            kw["nodeattrfunc"] = _nattr
        if custom.get("eattr"):
            epartial = custom["eattr"] == "partial"  # ... and for some edges, also between two decorated siblings
            eattr = lambda p, c: None if epartial and (p + c // 2) % 2 else "label=%d_%d" % (p, c)  # noqa: E731
            kw["edgeattrfunc"] = lambda p, c: eattr(lab(p), lab(c))
            if epartial:
                ctx.count("%s.custom_function_returns_none" % prop)
        if custom.get("etype"):
            edgetype = "--"
            kw["edgetypefunc"] = lambda p, c: "--"
    cfg = dict(case, exporter=exporter_kind, start=s, stop=sorted(stop), hidden=sorted(hidden), maxlevel=maxlevel, custom=custom)
    ctx.count("mon.%s.export" % prop)
    if exporter_kind == "dot":
        ex = DotExporter(nodes[s], **kw)
    elif exporter_kind == "unique":
        if ch[s] and (s + len(stop)) % 2 == 0:
            ctx.count("%s.other_exporter_numbered_subtree_before" % prop)
            list(UniqueDotExporter(nodes[ch[s][-1]]))
        ex = UniqueDotExporter(nodes[s], **kw)
    else:
        with warnings.catch_warnings():
            warnings.simplefilter("ignore")
            ex = anytree.dotexport.RenderTreeGraph(nodes[s], **kw)
    lines = list(ex)
    lines2 = list(ex)
    ind = " " * indent
    unique_default = exporter_kind == "unique" and namefn is None
    phase = {"n": 1, "ids": None}

    def bad(what, expected, observed):
        ctx.violation("%s/%s/%s%s" % (prop, exporter_kind, what, "/after-predicate-change" if phase["n"] == 2 else ""), "dot-structure",
                      dict(cfg, phase2=phase2_json(phase2)), expected=expected, observed=observed)
        return False

    if lines2 != lines:
        return bad("re-iteration", lines[:30], lines2[:30])
    if not _verify_dot(ctx, prop, lines, bad, ind, graph, gname, options, ch, s, stop, hidden, maxlevel, names, namefn, nattr, eattr, edgetype, exporter_kind, unique_default, known, cfg, phase):
        return False
    if phase2:
        ids1 = phase["ids"]
        phase["n"] = 2
        if phase2.get("abort") is not None and nattr is not None:
            # an iteration aborted by a raising user function, then the same object is used again
            cur["abort"] = phase2["abort"]
            try:
                list(ex)
            except AbortIteration:
                ctx.count("%s.aborted_iteration_then_reuse" % prop)
            cur["abort"] = None
        cur["stop"], cur["hidden"] = phase2["stop"], phase2["hidden"]
        names2, ch2 = apply_phase2_to_tree(phase2, nodes, names, ch)
        cur["names"] = names2
        ml2 = maxlevel
        if "maxlevel" in phase2:
            ml2 = phase2["maxlevel"]
            ex.maxlevel = ml2
            ctx.count("%s.attribute_reassigned" % prop)
        if phase2.get("rename") or phase2.get("move"):
            ctx.count("%s.tree_changed_between_iterations" % prop)
        ctx.count("%s.predicate_change" % prop)
        if phase2.get("abort") is not None and nattr is not None:
            # ... and once more under the new predicates: the aborted pass itself may have met nodes for the first time
            cur["abort"] = phase2["abort"]
            try:
                list(ex)
            except AbortIteration:
                ctx.count("%s.aborted_iteration_met_new_nodes" % prop)
            cur["abort"] = None
        lines3 = list(ex)
        if not _verify_dot(ctx, prop, lines3, bad, ind, graph, gname, options, ch2, s, phase2["stop"], phase2["hidden"], ml2, names2, namefn, nattr, eattr, edgetype, exporter_kind, unique_default, known, cfg, phase):
            return False
        if unique_default:
            ids2 = phase["ids"]
            moved = [x for x in ids1 if x in ids2 and ids1[x] != ids2[x]]
            if moved or len(set(list(ids1.values()) + list(ids2.values()))) != len(set(ids1) | set(ids2)):
                return bad("unique-id-unstable", ids1, ids2)
    return True


def _verify_dot(ctx, prop, lines, bad, ind, graph, gname, options, ch, s, stop, hidden, maxlevel, names, namefn, nattr, eattr, edgetype, exporter_kind, unique_default, known, cfg, phase):
    decl = declared(ch, s, stop, hidden, maxlevel)
    edges = expected_edges(ch, decl)
    if not lines or lines[0] != "%s %s {" % (graph, gname):
        return bad("header", "%s %s {" % (graph, gname), lines[:1])
    if lines[-1] != "}":
        return bad("closing-brace", "}", lines[-1:])
    body = lines[1:-1]
    if body[: len(options)] != [ind + o for o in options]:
        return bad("options", [ind + o for o in options], body[: len(options)])
    body = body[len(options):]
    nodelines = body[: len(decl)]
    edgelines = body[len(decl):]
    # ---- node statements: parse back
    ids = {}
    for x, ln in zip(decl, nodelines):
        if not ln.startswith(ind + '"'):
            return bad("node-statement", "node statement for %d" % x, ln)
        pq = parse_quoted(ln, len(ind))
        if pq is None:
            return bad("node-statement-quoting", "quoted identifier", ln)
        ident, pos = pq
        rest = ln[pos:]
        if unique_default:
            if ident in ids.values():
                return bad("unique-id-collision", "distinct identifiers", nodelines)
        else:
            want = namefn(x) if namefn else str(names[x])
            if ident != want:
                return bad("identifier-not-recoverable", want, ident)
            if ln[len(ind):pos] != '"%s"' % esc(want):
                return bad("identifier-escaping", '"%s"' % esc(want), ln)
        ids[x] = ident
        if nattr is not None:
            wantrest = ";" if nattr(x) is None else " [%s];" % nattr(x)
        elif exporter_kind == "unique":
            wantrest = ' [label="%s"];' % (names[x],)
        else:
            wantrest = ";"
        if rest != wantrest:
            return bad("node-attributes", wantrest, rest)
    if len(nodelines) < len(decl):
        return bad("missing-node-statements", decl, nodelines)
    phase["ids"] = dict(ids)
    # ---- edge statements
    byid = {}
    for x, ident in ids.items():
        byid.setdefault(ident, []).append(x)
    got_edges = []
    unknown = []  # edges whose child identifier was never declared
    for ln in edgelines:
        if not ln.startswith(ind + '"'):
            return bad("edge-or-surplus-line", "edge statement", ln)
        a = parse_quoted(ln, len(ind))
        if a is None:
            return bad("edge-quoting", "quoted identifier", ln)
        mid = " %s " % edgetype
        if ln[a[1]: a[1] + len(mid)] != mid:
            return bad("edge-type", mid, ln)
        b = parse_quoted(ln, a[1] + len(mid))
        if b is None:
            return bad("edge-quoting", "quoted identifier", ln)
        got_edges.append((a[0], b[0], ln[b[1]:], ln))
    def erest(p, c):
        v = eattr(p, c) if eattr else None
        return ";" if v is None else " [%s];" % v

    # resolve identifiers back to nodes where possible (names may collide for the plain exporter)
    exp_multiset = sorted((ids[p], ids[c], erest(p, c)) for p, c in edges)
    got_multiset = sorted((a, b, r) for a, b, r, _ in got_edges)
    if got_multiset == exp_multiset:
        for a, b, r, ln in got_edges:
            want = '%s"%s" %s "%s"%s' % (ind, esc(a), edgetype, esc(b), r)
            if ln != want:
                return bad("edge-escaping", want, ln)
        ctx.count("%s.edges_checked" % prop, len(got_edges))
        return True
    # ---- not equal: is it exactly the known mechanism?
    surplus = k5_surplus(ch, s, stop, hidden, maxlevel, decl)
    if "dot-edge-to-stopped-child" in known and surplus:
        if unique_default:
            # surplus targets carry fresh identifiers: per parent the count must match,
            # fresh ids are distinct from declared ones and from each other
            exp_core = sorted((ids[p], ids[c]) for p, c in edges)
            declared_ids = set(ids.values())
            core = sorted((a, b) for a, b, r, _ in got_edges if b in declared_ids)
            fresh = [(a, b) for a, b, r, _ in got_edges if b not in declared_ids]
            per_parent = sorted(ids[p] for p, _ in surplus)
            if core == exp_core and sorted(a for a, _ in fresh) == per_parent and len({b for _, b in fresh}) == len(fresh) and all(r == ";" or eattr for _, _, r, _ in got_edges):
                ctx.known_finding("dot-edge-to-stopped-child", cfg, {"surplus": surplus})
                ctx.count("%s.known.dot-edge-to-stopped-child" % prop)
                return True
        else:
            nm = namefn if namefn else (lambda x: str(names[x]))
            exp2 = sorted([(ids[p], ids[c], erest(p, c)) for p, c in edges] +
                          [(ids[p], nm(c), erest(p, c)) for p, c in surplus])
            if got_multiset == exp2:
                ctx.known_finding("dot-edge-to-stopped-child", cfg, {"surplus": surplus})
                ctx.count("%s.known.dot-edge-to-stopped-child" % prop)
                return True
    missing = [e for e in exp_multiset if e not in got_multiset]
    extra = [e for e in got_multiset if e not in exp_multiset]
    what = "edge-missing" if missing and not extra else ("edge-surplus" if extra and not missing else "edge-set")
    declared_ids = set(ids.values())
    if any(b not in declared_ids for _, b, _ in extra):
        what = "edge-to-undeclared-node"
    return bad(what, {"edges": exp_multiset[:30]}, {"edges": got_multiset[:30], "missing": missing[:10], "surplus": extra[:10]})


# -------------------------------------------------------------- Mermaid
MID = re.compile(r"^(N\d+)(.*)$", re.S)


def check_mermaid(ctx, prop, lib, nodes, idmap, names, par, ch, s, stop, hidden, maxlevel, custom, case, to_file_dir=None, phase2=None):
    from anytree.exporter import MermaidExporter

    lab = lambda n: idmap[id(n)]  # noqa: E731
    phase2 = phase2_norm(phase2)
    kw = {}
    cur = {"stop": stop, "hidden": hidden, "abort": None}
    if stop or phase2:
        kw["stop"] = lambda n: lab(n) in cur["stop"]
    if hidden or phase2:
        kw["filter_"] = lambda n: lab(n) not in cur["hidden"]
    if maxlevel is not None:
        kw["maxlevel"] = maxlevel
        if (s + len(stop) + len(hidden)) % 3 == 0:
            from .c06 import int_like

            kw["maxlevel"] = int_like(maxlevel)  # a bool / an int-subclass instance with the same value
            ctx.count("%s.maxlevel_int_subclass" % prop)
    indent = 0
    graph, gname = "graph", "TD"
    options = []
    namefn = nodefn = edgefn = None
    if custom:
        indent = custom["indent"]
        graph, gname = custom["graph"], custom["name"]
        options = custom["options"]
        kw.update(indent=indent, graph=graph, name=gname, options=options)
        if custom.get("namefunc"):
            # the identifier depends on mutable node state (its name), as "nodenamefunc=lambda n: slug(n.name)" does
            namefn = lambda x: "id%d_%d" % (x, name_sum(cur.get("names", names)[x]))  # noqa: E731
            kw["nodenamefunc"] = lambda n: "id%d_%d" % (lab(n), name_sum(n.name))
        if custom.get("nattr"):
            nodefn = lambda x: "(%s #%d)" % (cur.get("names", names)[x], x)  # noqa: E731

            def _nodefunc(n):
                if cur["abort"] is not None and lab(n) == cur["abort"]:
                    raise AbortIteration()
                return "(%s #%d)" % (n.name, lab(n))

            kw["nodefunc"] = _nodefunc
        if custom.get("eattr"):
            edgefn = lambda p, c: "--%d.%d-->" % (p, c)  # noqa: E731
            kw["edgefunc"] = lambda p, c: "--%d.%d-->" % (lab(p), lab(c))
    cfg = dict(case, exporter="mermaid", start=s, stop=sorted(stop), hidden=sorted(hidden), maxlevel=maxlevel, custom=custom)
    ctx.count("mon.%s.export" % prop)
    ex = MermaidExporter(nodes[s], **kw)
    lines = list(ex)
    lines2 = list(ex)
    ind = " " * indent
    phase = {"n": 1, "ids": None}

    def bad(what, expected, observed):
        ctx.violation("%s/mermaid/%s%s" % (prop, what, "/after-predicate-change" if phase["n"] == 2 else ""), "mermaid-structure",
                      dict(cfg, phase2=phase2_json(phase2)), expected=expected, observed=observed)
        return False

    if lines2 != lines:
        return bad("re-iteration", lines[:30], lines2[:30])
    if not _verify_mermaid(ctx, prop, lines, bad, ind, graph, gname, options, ch, s, stop, hidden, maxlevel, names, namefn, nodefn, edgefn, phase):
        return False
    if phase2:
        ids1 = phase["ids"]
        phase["n"] = 2
        if phase2.get("abort") is not None and nodefn is not None:
            cur["abort"] = phase2["abort"]
            try:
                list(ex)
            except AbortIteration:
                ctx.count("%s.aborted_iteration_then_reuse" % prop)
            cur["abort"] = None
        cur["stop"], cur["hidden"] = phase2["stop"], phase2["hidden"]
        names2, ch2 = apply_phase2_to_tree(phase2, nodes, names, ch)
        cur["names"] = names2
        ml2 = maxlevel
        if "maxlevel" in phase2:
            ml2 = phase2["maxlevel"]
            ex.maxlevel = ml2
            ctx.count("%s.attribute_reassigned" % prop)
        if phase2.get("rename") or phase2.get("move"):
            ctx.count("%s.tree_changed_between_iterations" % prop)
        ctx.count("%s.predicate_change" % prop)
        if phase2.get("abort") is not None and nodefn is not None:
            cur["abort"] = phase2["abort"]
            try:
                list(ex)
            except AbortIteration:
                ctx.count("%s.aborted_iteration_met_new_nodes" % prop)
            cur["abort"] = None
        names, ch = names2, ch2
        if not _verify_mermaid(ctx, prop, list(ex), bad, ind, graph, gname, options, ch2, s, phase2["stop"], phase2["hidden"], ml2, names2, namefn, nodefn, edgefn, phase):
            return False
        if namefn is None:
            ids2 = phase["ids"]
            moved = [x for x in ids1 if x in ids2 and ids1[x] != ids2[x]]
            if moved or len(set(list(ids1.values()) + list(ids2.values()))) != len(set(ids1) | set(ids2)):
                return bad("id-unstable", ids1, ids2)
    if to_file_dir is not None:
        ctx.count("%s.to_file" % prop)
        path = os.path.join(to_file_dir, "m-%d.md" % os.getpid())
        lines_now = list(ex)
        with open(path, "w", encoding="utf-8") as fh:
            fh.write("stale line of an earlier, longer export\n" * 400)  # the target exists already and is longer
        ex.to_file(path)
        with open(path, encoding="utf-8") as fh:
            text = fh.read()
        os.unlink(path)
        want = "```mermaid\n" + "".join(ln + "\n" for ln in lines_now) + "```"
        if text != want:
            return bad("to_file", want[:400], text[:400])
    return True


def _verify_mermaid(ctx, prop, lines, bad, ind, graph, gname, options, ch, s, stop, hidden, maxlevel, names, namefn, nodefn, edgefn, phase):
    decl = declared(ch, s, stop, hidden, maxlevel)
    edges = expected_edges(ch, decl)
    if not lines or lines[0] != "%s %s" % (graph, gname):
        return bad("header", "%s %s" % (graph, gname), lines[:1])
    body = lines[1:]
    if body[: len(options)] != [ind + o for o in options]:
        return bad("options", [ind + o for o in options], body[: len(options)])
    body = body[len(options):]
    nodelines = body[: len(decl)]
    edgelines = body[len(decl):]
    if len(nodelines) < len(decl):
        return bad("missing-node-lines", decl, nodelines)
    ids = {}
    for x, ln in zip(decl, nodelines):
        if not ln.startswith(ind):
            return bad("indent", ind, ln)
        t = ln[len(ind):]
        if namefn:
            ident = namefn(x)
            if not t.startswith(ident):
                return bad("nodenamefunc", ident, t)
            rest = t[len(ident):]
        else:
            m = MID.match(t)
            if not m:
                return bad("node-line", "N<k><label>", t)
            ident, rest = m.group(1), m.group(2)
            if ident in ids.values():
                return bad("id-collision", "distinct identifiers", nodelines)
        ids[x] = ident
        want = nodefn(x) if nodefn else '["%s"]' % esc(names[x])
        if rest != want:
            return bad("label", want, rest)
    exp_lines = sorted("%s%s%s%s" % (ind, ids[p], edgefn(p, c) if edgefn else "-->", ids[c]) for p, c in edges)
    if sorted(edgelines) != exp_lines:
        got = sorted(edgelines)
        missing = [e for e in exp_lines if e not in got]
        extra = [e for e in got if e not in exp_lines]
        what = "edge-missing" if missing and not extra else ("edge-surplus" if extra and not missing else "edge-set")
        return bad(what, exp_lines[:30], {"edges": got[:30], "missing": missing[:10], "surplus": extra[:10]})
    ctx.count("%s.edges_checked" % prop, len(edgelines))
    phase["ids"] = dict(ids)
    return True


def check_dotfile(ctx, prop, lib, node, workdir, cfg):
    from anytree.exporter import DotExporter

    ctx.count("%s.to_dotfile" % prop)
    ex = DotExporter(node)
    path = os.path.join(workdir, "d-%d.dot" % os.getpid())
    with open(path, "w", encoding="utf-8") as fh:
        fh.write("stale line of an earlier, longer export\n" * 400)
    ex.to_dotfile(path)
    with open(path, encoding="utf-8") as fh:
        text = fh.read()
    os.unlink(path)
    want = "".join(ln + "\n" for ln in ex)
    if text != want:
        ctx.violation("%s/dot/to_dotfile" % prop, "dot-structure", cfg, expected=want[:400], observed=text[:400])
        return False
    return True


def random_phase2(rng, n, par, s):
    """What changes between two iterations of one exporter object."""
    d = {"stop": frozenset(x for x in range(n) if rng.random() < 0.2), "hidden": frozenset(x for x in range(n) if rng.random() < 0.3)}
    r = rng.random()
    if r < 0.35:
        d["maxlevel"] = rng.choice([None, 0, 1, 2, 3])
    if rng.random() < 0.4:
        d["rename"] = {rng.randrange(n): rng.choice(["ren", 'r"q', "a", "b\\"]) for _ in range(rng.randint(1, 2))}
    if rng.random() < 0.4 and n >= 3:
        # a legal move: a is not the start node's ancestor..., b not inside a's subtree
        from .. import ref as R
        ch = [[] for _ in range(n)]
        for i, p in enumerate(par):
            if p is not None:
                ch[p].append(i)
        a = rng.randrange(1, n)
        sub = set(R.preorder_iter(ch, a))
        cands = [b for b in range(n) if b not in sub and b != par[a]]
        if cands:
            d["move"] = [a, rng.choice(cands)]
    if rng.random() < 0.3:
        d["abort"] = rng.randrange(n)
    return d


CUSTOMS = [
    None,
    {"indent": 2, "graph": "graph", "name": "G", "options": ["rankdir=LR;", 'node [shape="box"];'], "namefunc": True, "nattr": True, "eattr": True, "etype": True},
    {"indent": 0, "graph": "digraph", "name": "my tree", "options": [], "namefunc": True},
    {"indent": 7, "graph": "digraph", "name": "t", "options": ["a=b;"], "nattr": True, "eattr": True},
    {"indent": 3, "graph": "digraph", "name": "p", "options": [], "nattr": "partial", "eattr": "partial"},
]

HOSTILE_NAMES = ['a"b', "back\\slash", 'q"\\"', "sp ace", "é中", "\\", '"', "a\\\\b", "x;y", "tab\tz", "n{}", "->", "[lbl]", "a", "a", "b", "\U0001f600", "new\nline", "'", "%s", ("it's", 'q"', 1), 3.5, None, ("\\",), "cpu%%", "100%", "%d%%", 'many' + '"\\' * 20, '"' * 40, "e\u0301", "\u00e9", "\u212b", "A\u030a", "\u00c5", "\u2126",
                 # values that compare (and hash) equal but print differently
                 1, 1.0, True, 0, 0.0, False, "1", "True"]


def hostile_names(rng, n, collide):
    if collide:
        pool = ["a", "b", 'a"', "\\"]
    else:
        pool = HOSTILE_NAMES
    return [rng.choice(pool) for _ in range(n)]


def name_sum(name):
    """Small deterministic checksum of a (possibly non-string, possibly hostile) name."""
    import zlib

    return zlib.crc32(str(name).encode("utf-8", "surrogatepass")) % 9973


_VALUE_CLS = []


def value_node_class():
    """Node subclass with value semantics: equal / hash-equal when the names agree."""
    from anytree import Node

    if not _VALUE_CLS:
        class ValueNode(Node):
            def __eq__(self, other):
                return type(other) is type(self) and other.name == self.name

            def __ne__(self, other):
                return not self.__eq__(other)

            def __hash__(self):
                return hash(self.name)

        _VALUE_CLS.append(ValueNode)
    return _VALUE_CLS[0]


_FALSY_CLS = []


def falsy_node_class():
    """Container-like Node subclass: len() is the number of children, so every leaf is falsy."""
    from anytree import Node

    if not _FALSY_CLS:
        class BagNode(Node):
            def __len__(self):
                return len(self.children)

        _FALSY_CLS.append(BagNode)
    return _FALSY_CLS[0]


def build(par, names, value_semantics=False):
    """value_semantics: False (plain Node), True (equal/hash by name) or "falsy" (container-like, leaves are falsy)."""
    from anytree import Node

    if value_semantics == "falsy":
        Node = falsy_node_class()  # noqa: N806
    elif value_semantics:
        Node = value_node_class()  # noqa: N806
    nodes = [Node(names[i]) for i in range(len(par))]
    for i, p in enumerate(par):
        if p is not None:
            nodes[i].parent = nodes[p]
    return nodes


def filter_sets(n):
    return [frozenset(), frozenset(range(1, n, 2)), frozenset([0]), frozenset(range(0, n, 3))]
