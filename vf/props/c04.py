"""C04 - navigation attributes and sibling/ancestor helpers equal their definitions."""
import itertools

from .. import gen
from .. import ref as R

LEVEL = "exploration"
TECHNIQUE = "query battery after every build and after every step of mutation histories, compared by identity with reference definitions over an independent parent/children model"
RULE = (
    "case = (family, tree shape or forest state) with every node (and node tuples for commonancestors) queried; all ordered trees up to n "
    "nodes exhaustively, random shapes (chains, stars, caterpillars, lopsided, depth<=150), and every step of random mutation histories; "
    "distinct = hash of (family, shape/state); trivial = single node"
)
ASSUMPTIONS = ["depth <= 150 (deeper trees hit the interpreter recursion limit in height, which is Python's, not anytree's)"]
GATES = ["mon.C04.first_read", "C04.lone_node_after_dropped_tree", "C04.shape.widestar", "mon.C04.node", "mon.C04.common", "C04.after_mutation", "C04.height_not_last_child", "C04.cross_tree_common", "C04.after_faulted_history"]


def plan(tier, seed, jobs):
    n = max(2, min(16, jobs))
    return [{"assertions": i % 2, "shard": i, "nshards": n} for i in range(n)]


ATTRS = ("parent", "children", "path", "ancestors", "root", "depth", "is_root", "is_leaf", "siblings", "descendants", "leaves", "size", "height")


def expected_for(par, ch, n):
    pth = R.path(par, n)
    pre = R.preorder_iter(ch, n)
    p = par[n]
    sib = [] if p is None else [c for c in ch[p] if c != n]
    idx = None if p is None else ch[p].index(n)
    return {
        "parent": p,
        "children": list(ch[n]),
        "path": pth,
        "ancestors": pth[:-1],
        "root": pth[0],
        "depth": len(pth) - 1,
        "is_root": p is None,
        "is_leaf": not ch[n],
        "siblings": sib,
        "descendants": pre[1:],
        "leaves": [x for x in pre if not ch[x]],
        "size": len(pre),
        "height": R.height(ch, n),
        "iter_path_reverse": list(reversed(pth)),
        "leftsibling": None if p is None or idx == 0 else ch[p][idx - 1],
        "rightsibling": None if p is None or idx == len(ch[p]) - 1 else ch[p][idx + 1],
    }


def check_universe(ctx, nodes, par, ch, case, util, pairs=True, rng=None):
    """Compare every attribute of every node with its definition."""
    idmap = {id(o): i for i, o in enumerate(nodes)}

    def m(x):
        if x is None or type(x) in (bool, int):
            return x
        i = idmap.get(id(x))
        if i is not None:
            return i
        if isinstance(x, tuple):
            return [m(y) for y in x]
        return ("?", repr(x)[:40])

    ok = True
    for i, n in enumerate(nodes):
        exp = expected_for(par, ch, i)
        ctx.count("mon.C04.node")
        obs = {}
        for a in ATTRS:
            v = getattr(n, a)
            if a in ("children", "path", "ancestors", "siblings", "descendants", "leaves") and type(v) is not tuple:
                obs[a] = ("not-a-tuple", type(v).__name__)
            else:
                obs[a] = m(v)
        obs["iter_path_reverse"] = [m(x) for x in n.iter_path_reverse()]
        obs["leftsibling"] = m(util.leftsibling(n))
        obs["rightsibling"] = m(util.rightsibling(n))
        if len(ch[i]) >= 2 and R.height(ch, ch[i][-1]) + 1 < exp["height"]:
            ctx.count("C04.height_not_last_child")
        for a, e in exp.items():
            if obs[a] != e:
                ctx.violation("C04/%s" % a, "navigation-definition", dict(case, node=i), expected={a: e}, observed={a: obs[a]})
                ok = False
                break
    if not pairs:
        return ok
    k = len(nodes)
    anc = [R.path(par, i)[:-1] for i in range(k)]

    def common(*labs):
        ctx.count("mon.C04.common")
        got = util.commonancestors(*[nodes[x] for x in labs])
        exp = R.common_prefix([anc[x] for x in labs]) if labs else []
        if type(got) is not tuple or m(got) != exp:
            ctx.violation("C04/commonancestors/%d" % len(labs), "commonancestors", dict(case, nodes=list(labs)), expected=exp, observed=m(got))
            return False
        if len(labs) >= 2 and R.path(par, labs[0])[0] != R.path(par, labs[1])[0]:
            ctx.count("C04.cross_tree_common")
        return True

    ok &= common()
    for i in range(k):
        ok &= common(i)
    if k <= 12:
        prs = itertools.product(range(k), repeat=2)
    else:
        prs = [(rng.randrange(k), rng.randrange(k)) for _ in range(150)]
    for a, b in prs:
        if not common(a, b):
            ok = False
            break
    trip = itertools.product(range(k), repeat=3) if k <= 5 else [tuple(rng.randrange(k) for _ in range(rng.choice([3, 4]))) for _ in range(40)]
    for t in trip:
        if not common(*t):
            ok = False
            break
    return ok


def run(ctx):
    from .. import forest as F
    from .. import trees as TR
    from anytree import util

    T = ctx.tier == "thorough"
    idx = 0
    nmax = 10 if T else 7
    fams = TR.READ_FAMILIES + ("BARE",)
    for n in range(1, nmax + 1):
        cnt = 0
        for par in gen.ordered_trees(n):
            cnt += 1
            idx += 1
            if not ctx.mine(idx):
                continue
            ch = gen.children_of(par)
            for fam in fams if n <= 5 else (fams[idx % len(fams)],):
                nodes = TR.build(par, fam)
                case = {"family": fam, "par": list(par)}
                ctx.case((fam, par), nontrivial=n > 1, sample=case if idx % 211 == 0 else None)
                import random

                check_universe(ctx, nodes, list(par), ch, case, util, rng=random.Random(idx))
            if n <= 5:
                # the order of reads must not matter: every attribute is also the *first* thing asked of a fresh tree
                for fam in fams + ("SYMLM",):
                    for a in ATTRS[2:]:
                        nodes = TR.build(par, fam)
                        idmap = {id(o): i for i, o in enumerate(nodes)}
                        ctx.count("mon.C04.first_read")
                        for i in reversed(range(n)):
                            v = getattr(nodes[i], a)
                            if id(v) in idmap:
                                v = idmap[id(v)]  # (a node may itself be a tuple)
                            elif type(v) is tuple:
                                v = [idmap.get(id(x), "?") for x in v]
                            elif type(v) not in (bool, int):
                                v = "?"
                            e = expected_for(par, ch, i)[a]
                            if v != e:
                                ctx.violation("C04/%s/first-read" % a, "navigation-definition", {"family": fam, "par": list(par), "node": i, "first_read": a}, expected={a: e}, observed={a: v})
                                break
        ctx.exhaustive.append("all %d ordered trees with %d nodes, every node, all pairs" % (cnt, n))
    # two-tree forests for cross-tree commonancestors
    for k in (2, 3, 4):
        for ch in gen.ordered_forests(k):
            idx += 1
            if not ctx.mine(idx):
                continue
            fam = fams[idx % len(fams)]
            nodes = TR.build_ch(ch, fam)
            case = {"family": fam, "state": [list(c) for c in ch]}
            ctx.case((fam, ch), nontrivial=True)
            import random

            check_universe(ctx, nodes, gen.parents_of(ch), [list(c) for c in ch], case, util, rng=random.Random(idx))
    # random shapes
    nrand = (40000 if T else 320) // ctx.nshards + 1
    for r in range(nrand):
        rng = ctx.rng("shape", r)
        n = rng.randint(2, 60 if T else 40)
        kind = None
        if r % 9 == 0:
            kind, n = "chain", rng.randint(20, 150)
        elif r % 9 == 1:
            kind, n = "spinebush", rng.randint(45, 130)
        par, kind = gen.random_tree(rng, n, kind)
        if r % 9 == 2 and r < 40:
            # a very wide node: more children than CPython keeps small-int singletons for
            kind, n = "widestar", rng.randint(258, 300)
            par = tuple([None] + [0] * (n - 2) + [n - 2])
        fam = fams[r % len(fams)]
        nodes = TR.build(par, fam)
        case = {"family": fam, "par": list(par), "kind": kind}
        ctx.case((fam, par), sample=case if r % 40 == 0 else None)
        ctx.count("C04.shape." + kind)
        check_universe(ctx, nodes, list(par), gen.children_of(par), case, util, rng=rng)
        # a brand-new lone node, created after the tree above was used and dropped (its memory may be recycled)
        del nodes
        import gc

        gc.collect()
        lone = TR.build((None,), fam)
        ctx.count("C04.lone_node_after_dropped_tree")
        if not check_universe(ctx, lone, [None], [[]], {"family": fam, "par": [None], "after_dropped_tree": list(par)}, util, rng=rng):
            break
    # mutation histories (some calls aborted by a raising hook): values must be fresh immediately after any mutation
    nh = (30000 if T else 300) // ctx.nshards + 1
    hfams = ("NM", "LM", "Node", "MIX", "VALNM", "VALLM", "FALSY", "REPRLM")
    for h in range(nh):
        rng = ctx.rng("hist", h)
        fam = hfams[h % len(hfams)]
        k = rng.randint(3, 10)
        step = 0
        for nodes, par, ch, case in TR.evolving_universe(ctx, rng, fam, k, rng.randint(5, 30), fault_rate=(0.3 if h % 2 else 0.0)):
            ctx.case((fam, "hist", tuple(map(tuple, ch))), sample=None)
            ctx.count("C04.after_mutation")
            if h % 2:
                ctx.count("C04.after_faulted_history")
            if not check_universe(ctx, nodes, par, ch, case, util, pairs=(step % 5 == 0), rng=rng):
                break
            step += 1


def replay(ctx, wit):
    from .. import forest as F
    from .. import trees as TR
    from anytree import util
    import random
    from .forest_engine import tup

    c = wit["case"]
    fam = c["family"]
    if "first_read" in c:
        par = c["par"]
        ch = gen.children_of(par)
        nodes = TR.build(par, fam)
        idmap = {id(o): i for i, o in enumerate(nodes)}
        a = c["first_read"]
        for i in reversed(range(len(par))):
            v = getattr(nodes[i], a)
            if id(v) in idmap:
                v = idmap[id(v)]
            elif type(v) is tuple:
                v = [idmap.get(id(x), "?") for x in v]
            elif type(v) not in (bool, int):
                v = "?"
            e = expected_for(par, ch, i)[a]
            if v != e:
                ctx.violation("C04/%s/first-read" % a, "navigation-definition", dict(c, node=i), expected={a: e}, observed={a: v})
                break
    elif "history" in c:
        for nodes, par, ch in TR.replay_universe(c):
            check_universe(ctx, nodes, par, ch, c, util, rng=random.Random(0))
    elif "par" in c:
        par = c["par"]
        check_universe(ctx, TR.build(par, fam), par, gen.children_of(par), c, util, rng=random.Random(0))
    else:
        ch = tup(c["state"])
        check_universe(ctx, TR.build_ch(ch, fam), gen.parents_of(ch), [list(x) for x in ch], c, util, rng=random.Random(0))
    ctx.case(("replay",))
