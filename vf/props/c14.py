"""C14 - search functions return the filtered pre-order and enforce their count bounds."""
import re

from .. import gen
from .. import ref as R

LEVEL = "exploration"
TECHNIQUE = "results and CountError (class, message numbers) of search/cachedsearch functions compared with the reference pre-order restriction and bound semantics; all bound pairs around the match count"
RULE = (
    "case = (tree, start, attribute assignment, filter/stop/maxlevel, mincount, maxcount); all ordered trees up to n nodes x every start x sampled "
    "attribute assignments over {absent,'u','v'} x every (mincount,maxcount) in {None,0..count+2}^2 x maxlevel, for search and cachedsearch; "
    "distinct = hash of the configuration; trivial = none"
)
ASSUMPTIONS = ["fastcache is not installed in this image, so the cachedsearch wrappers are pass-through (stated, not assumed away: they are still compared call by call)",
               "names/reprs in CountError cases are digit-free so the numbers in the message are unambiguous"]
GATES = ["mon.C14.findall", "mon.C14.find", "mon.C14.by_attr", "mon.C14.cached", "C14.bound_equal_count", "C14.counterror_min", "C14.counterror_max",
         "C14.attr_missing_skipped", "C14.find_none", "C14.find_one", "C14.find_many", "C14.none_value_with_missing_attr", "C14.unhashable_value", "C14.after_mutation", "C14.variant.getattr", "C14.variant.property", "C14.variant.valeq", "C14.variant.slots", "C14.variant.unhashable", "C14.variant.tuplename", "C14.variant.noname", "mon.C14.callbacks_like_preorderiter", "C14.raising_filter_propagates"]


def plan(tier, seed, jobs):
    n = max(2, min(16, jobs))
    return [{"assertions": i % 2, "shard": i, "nshards": n} for i in range(n)]


INTS = re.compile(r"-?\d+")
NAN = float("nan")  # one object: 'attribute equals value' is false for it even when it is the same object
ABSENT = "<absent>"  # marker in the tags list: the node has no 'tag' attribute at all (None is a real value)


def call(f, *a, **kw):
    try:
        return ("ok", f(*a, **kw))
    except BaseException as e:  # noqa: B902
        return ("exc", e)


def check_tree(ctx, nodes, tags, ch, s, case, bounds_all=True, rng=None):
    from anytree import cachedsearch, search
    from anytree.search import CountError

    idmap = {id(o): i for i, o in enumerate(nodes)}
    pre_all = R.preorder_iter(ch, s)
    h = R.height(ch, s)
    n = len(nodes)

    def m(x):
        if x is None:
            return None
        if type(x) is tuple:
            return [idmap.get(id(y), "?") for y in x]
        return idmap.get(id(x), "?")

    def judge(kind, res, exp_list, mincount, maxcount, cfg):
        cnt = len(exp_list)
        must = (mincount is not None and cnt < mincount) or (maxcount is not None and cnt > maxcount)
        if mincount is not None and cnt == mincount or maxcount is not None and cnt == maxcount:
            ctx.count("C14.bound_equal_count")
        if must:
            if res[0] != "exc" or type(res[1]) is not CountError:
                ctx.violation("C14/%s/no-counterror" % kind, "count-bounds", dict(case, **cfg), expected="CountError (count=%d)" % cnt,
                              observed=repr(res[1])[:200] if res[0] == "exc" else m(res[1]))
                return False
            nums = [int(x) for x in INTS.findall(str(res[1]))]
            # "the message naming both numbers": the violated bound and the count, in whatever wording
            okmin = mincount is not None and cnt < mincount and mincount in nums and cnt in nums
            okmax = maxcount is not None and cnt > maxcount and maxcount in nums and cnt in nums
            if okmin:
                ctx.count("C14.counterror_min")
            if okmax:
                ctx.count("C14.counterror_max")
            if not (okmin or okmax):
                ctx.violation("C14/%s/message" % kind, "count-message", dict(case, **cfg), expected="message names violated bound and count %d" % cnt, observed=str(res[1])[:200])
                return False
            return True
        if res[0] == "exc":
            ctx.violation("C14/%s/unexpected-%s" % (kind, type(res[1]).__name__), "count-bounds", dict(case, **cfg), expected=exp_list, observed=repr(res[1])[:200])
            return False
        if type(res[1]) is not tuple or m(res[1]) != exp_list:
            ctx.violation("C14/%s/result" % kind, "reference-preorder", dict(case, **cfg), expected=exp_list, observed=m(res[1]) if type(res[1]) is tuple else repr(res[1])[:100])
            return False
        return True

    def same(kind, a, b, cfg):
        ctx.count("mon.C14.cached")
        if a[0] != b[0]:
            eq = False
        elif a[0] == "ok":
            eq = m(a[1]) == m(b[1]) and type(a[1]) is type(b[1])
        else:
            eq = type(a[1]) is type(b[1]) and str(a[1]) == str(b[1])
        if not eq:
            ctx.violation("C14/cached/%s" % kind, "cachedsearch-equals-search", dict(case, **cfg), expected=repr(a)[:200], observed=repr(b)[:200])
        return eq

    ok = True
    rng = rng
    # option sets
    sets = [frozenset(), frozenset(x for x in range(n) if tags[x] == "u"), frozenset(x for x in range(n) if x % 2), frozenset([s])]
    pkey = tuple(case["par"]) if case.get("par") else repr(case.get("history"))[:80]
    tkey = repr(tags)
    mls = [None, 0, 1] + list(range(2, h + 3))
    for hi, keep in enumerate([None] + sets[1:]):
        for si, stop in enumerate(sets[:3] if hi < 2 else sets[:1]):
            for ml in mls if (hi + si) < 2 else (None, 2):
                adm = R.admitted(ch, s, stop, ml)
                exp = [x for x in pre_all if x in adm and (keep is None or x in keep)]
                cnt = len(exp)
                kw = {}
                if keep is not None:
                    kw["filter_"] = lambda nd, keep=keep: idmap[id(nd)] in keep
                if stop:
                    kw["stop"] = lambda nd, stop=stop: idmap[id(nd)] in stop
                if ml is not None:
                    kw["maxlevel"] = ml
                    if (s + hi + si) % 3 == 0:
                        from .c06 import int_like

                        kw["maxlevel"] = int_like(ml)
                        ctx.count("C14.maxlevel_int_subclass")
                brange = [None] + list(range(0, cnt + 3))
                pairs = [(a, b) for a in brange for b in brange] if bounds_all else [(None, None), (cnt, cnt), (cnt + 1, None), (None, cnt - 1 if cnt else 0), (0, 0)]
                for mn, mx in pairs:
                    cfg = {"start": s, "keep": None if keep is None else sorted(keep), "stop": sorted(stop), "maxlevel": ml, "mincount": mn, "maxcount": mx}
                    kk = dict(kw)
                    if mn is not None:
                        kk["mincount"] = mn
                    if mx is not None:
                        kk["maxcount"] = mx
                    ctx.case((pkey, tkey, s, hi, si, ml, mn, mx), sample=dict(case, **cfg) if ctx.evals % 30011 == 0 else None)
                    ctx.count("mon.C14.findall")
                    r1 = call(search.findall, nodes[s], **kk)
                    ok &= judge("findall", r1, exp, mn, mx, cfg)
                    ok &= same("findall", r1, call(cachedsearch.findall, nodes[s], **kk), cfg)
                    if not ok:
                        return False
                # find
                ctx.count("mon.C14.find")
                cfg = {"start": s, "keep": None if keep is None else sorted(keep), "stop": sorted(stop), "maxlevel": ml, "fn": "find"}
                r = call(search.find, nodes[s], **kw)
                ok &= same("find", r, call(cachedsearch.find, nodes[s], **kw), cfg)
                if cnt == 0:
                    ctx.count("C14.find_none")
                    good = r == ("ok", None)
                elif cnt == 1:
                    ctx.count("C14.find_one")
                    good = r[0] == "ok" and r[1] is nodes[exp[0]]
                else:
                    ctx.count("C14.find_many")
                    good = r[0] == "exc" and type(r[1]) is CountError and cnt in [int(x) for x in INTS.findall(str(r[1]))]
                if not good:
                    ctx.violation("C14/find/%s" % ("none" if cnt == 0 else "one" if cnt == 1 else "many"), "find", dict(case, **cfg),
                                  expected=("None" if cnt == 0 else exp[0] if cnt == 1 else "CountError(1, %d)" % cnt),
                                  observed=repr(r[1])[:200] if r[0] == "exc" else m(r[1]))
                    return False
    # by_attr
    for value in ("u", "v", "w", 1, None, ["l"], (1, 2), (), NAN, "caf\u00e9", "cafe\u0301"):
        for ml in (None, 1, 2, h + 1):
            adm = R.admitted(ch, s, frozenset(), ml)
            exp = [x for x in pre_all if x in adm and tags[x] is not ABSENT and tags[x] == value]
            if any(tags[x] is ABSENT for x in pre_all if x in adm):
                ctx.count("C14.attr_missing_skipped")
                if value is None:
                    ctx.count("C14.none_value_with_missing_attr")
            if isinstance(value, list):
                ctx.count("C14.unhashable_value")
            cnt = len(exp)
            for mn, mx in [(None, None), (cnt, cnt), (cnt + 1, None), (None, cnt - 1), (0, cnt + 1)]:
                if mx is not None and mx < 0:
                    continue
                cfg = {"start": s, "value": value, "maxlevel": ml, "mincount": mn, "maxcount": mx, "fn": "findall_by_attr"}
                kk = {"name": "tag"}
                if ml is not None:
                    kk["maxlevel"] = ml
                if mn is not None:
                    kk["mincount"] = mn
                if mx is not None:
                    kk["maxcount"] = mx
                ctx.count("mon.C14.by_attr")
                ctx.case(("byattr", pkey, tkey, s, repr(value), ml, mn, mx))
                r1 = call(search.findall_by_attr, nodes[s], value, **kk)
                ok &= judge("findall_by_attr", r1, exp, mn, mx, cfg)
                ok &= same("findall_by_attr", r1, call(cachedsearch.findall_by_attr, nodes[s], value, **kk), cfg)
                if not ok:
                    return False
            kk = {"name": "tag"}
            if ml is not None:
                kk["maxlevel"] = ml
            r = call(search.find_by_attr, nodes[s], value, **kk)
            cfg = {"start": s, "value": value, "maxlevel": ml, "fn": "find_by_attr"}
            ok &= same("find_by_attr", r, call(cachedsearch.find_by_attr, nodes[s], value, **kk), cfg)
            if cnt == 0:
                good = r == ("ok", None)
            elif cnt == 1:
                good = r[0] == "ok" and r[1] is nodes[exp[0]]
            else:
                good = r[0] == "exc" and type(r[1]) is CountError
            if not good:
                ctx.violation("C14/find_by_attr", "find_by_attr", dict(case, **cfg), expected=exp, observed=repr(r)[:200])
                return False
    # "findall returns exactly what PreOrderIter yields for the same arguments" - also when the caller's callbacks raise
    # (a filter that reads an attribute only some nodes carry) or keep state (a visit budget shared by stop and filter_)
    from anytree import PreOrderIter

    def natural(nd):
        return nd.tag == "u"  # AttributeError on nodes without the attribute

    def budget_pair(limit):
        seen = {"n": 0}

        def flt(nd):
            seen["n"] += 1
            return True

        def stp(nd):
            return seen["n"] >= limit

        return flt, stp

    for what in ("raising-filter", "budget-2", "budget-4"):
        for ml in (None, 1, 2):
            outs = []
            for fn in (lambda kw: tuple(PreOrderIter(nodes[s], **kw)), lambda kw: search.findall(nodes[s], **kw), lambda kw: cachedsearch.findall(nodes[s], **kw)):
                kw = {}
                if what == "raising-filter":
                    kw["filter_"] = natural
                else:
                    kw["filter_"], kw["stop"] = budget_pair(int(what[-1]))
                if ml is not None:
                    kw["maxlevel"] = ml
                r = call(fn, kw)
                outs.append(("ok", m(r[1])) if r[0] == "ok" else ("exc", type(r[1]).__name__))
            ctx.count("mon.C14.callbacks_like_preorderiter")
            if outs[0][0] == "exc":
                ctx.count("C14.raising_filter_propagates")
            if outs[1] != outs[0] or outs[2] != outs[0]:
                ctx.violation("C14/findall/differs-from-PreOrderIter/%s" % what, "reference-preorder", dict(case, start=s, callbacks=what, maxlevel=ml),
                              expected={"PreOrderIter": outs[0]}, observed={"search.findall": outs[1], "cachedsearch.findall": outs[2]})
                return False
    # default attribute name is "name"; positional forwarding through the cached wrappers
    r1 = call(search.findall_by_attr, nodes[s], "x", "tag", 2, None, None)
    r2 = call(cachedsearch.findall_by_attr, nodes[s], "x", "tag", 2, None, None)
    ok &= same("positional", r1, r2, {"start": s})
    exp = [x for x in pre_all if x in R.admitted(ch, s, frozenset(), None) and case.get("variant") != "noname"]
    r1 = call(search.findall_by_attr, nodes[s], ("nm", "x") if case.get("variant") == "tuplename" else "nm")
    ok &= judge("findall_by_attr-default-name", r1, exp, None, None, {"start": s, "fn": "findall_by_attr default name"})
    return ok


def norm_tags(tags):
    """JSON round trip safe: the marker string becomes the ABSENT object again."""
    return [ABSENT if t == ABSENT else t for t in tags]


_VARIANTS = {}
VARIANTS = ("plain", "getattr", "property", "valeq", "slots", "unhashable", "tuplename", "noname")


def variant_class(variant):
    """AnyNode subclasses that serve the searched attribute in unusual but legal ways."""
    from anytree import AnyNode

    if variant not in _VARIANTS:
        if variant == "getattr":
            class GetattrNode(AnyNode):
                # 'tag' lives neither in the instance dict nor on the class
                def __getattr__(self, name):
                    store = self.__dict__.get("_store", {})
                    if name == "tag" and "tag" in store:
                        return store["tag"]
                    raise AttributeError(name)

            _VARIANTS[variant] = GetattrNode
        elif variant == "property":
            class PropertyNode(AnyNode):
                @property
                def tag(self):
                    from anytree import search as _search

                    # the attribute is computed, and computing it runs a search of its own (a reference being resolved)
                    _search.findall_by_attr(self, "__no_such_value__", name="__no_such_attribute__")
                    store = self.__dict__.get("_store", {})
                    if "tag" in store:
                        return store["tag"]
                    raise AttributeError("tag")

            _VARIANTS[variant] = PropertyNode
        elif variant == "valeq":
            from anytree import NodeMixin

            class ValEqNode(NodeMixin):
                # value semantics: distinct nodes with the same name compare (and hash) equal
                def __init__(self, name, **kw):
                    self.name = name
                    self.__dict__.update(kw)

                def __eq__(self, other):
                    return isinstance(other, ValEqNode) and other.name == self.name

                def __hash__(self):
                    return hash(self.name)

            _VARIANTS[variant] = ValEqNode
        elif variant == "unhashable":
            from anytree import NodeMixin

            class UnhashableNode(NodeMixin):
                __hash__ = None

                def __init__(self, name, **kw):
                    self.name = name
                    self.__dict__.update(kw)

                def __eq__(self, other):
                    return isinstance(other, UnhashableNode) and other.name == self.name

            _VARIANTS[variant] = UnhashableNode
        elif variant == "noname":
            class NamelessNode(AnyNode):
                """No node of the tree has a 'name' attribute (nothing but 'tag')."""

            _VARIANTS[variant] = NamelessNode
        elif variant == "tuplename":
            from anytree import Node

            # coordinate-like names: they are formatted into reprs, and reprs into CountError messages
            _VARIANTS[variant] = Node
        elif variant == "slots":
            from anytree import LightNodeMixin

            class SlotNode(LightNodeMixin):
                # no instance dict at all; an absent tag is an unset slot
                __slots__ = ("name", "tag")

                def __init__(self, name, **kw):
                    self.name = name
                    for k, v in kw.items():
                        setattr(self, k, v)

            _VARIANTS[variant] = SlotNode
        else:
            _VARIANTS[variant] = AnyNode
    return _VARIANTS[variant]


def build(par, tags, variant="plain"):
    cls = variant_class(variant)
    nodes = []
    for i, p in enumerate(par):
        kw = {"name": ("nm", "x") if variant == "tuplename" else "nm"}
        if variant == "noname":
            kw = {}
        if tags[i] is not ABSENT:
            if variant in ("plain", "valeq", "unhashable", "slots", "tuplename", "noname"):
                kw["tag"] = tags[i]
            else:
                kw["_store"] = {"tag": tags[i]}
        nodes.append(cls(**kw))
    for i, p in enumerate(par):
        if p is not None:
            nodes[i].parent = nodes[p]
    return nodes


def run(ctx):
    T = ctx.tier == "thorough"
    nmax = 7 if T else 6
    idx = 0
    for n in range(1, nmax + 1):
        for par in gen.ordered_trees(n):
            idx += 1
            if not ctx.mine(idx):
                continue
            rng = ctx.rng("tags", idx)
            ch = gen.children_of(par)
            ntag = 3 if not T else (8 if n <= 5 else 3)
            for t in range(ntag):
                tags = [rng.choice([ABSENT, "u", "v", "u", None]) for _ in range(n)]
                if t == 0:
                    tags = ["u"] * n
                variant = "plain" if t == 0 else VARIANTS[(idx + t) % len(VARIANTS)]
                nodes = build(par, tags, variant)
                case = {"par": list(par), "tags": tags, "variant": variant}
                for s in range(n):
                    if not check_tree(ctx, nodes, tags, ch, s, case, bounds_all=(n <= 5 or T)):
                        break
        ctx.exhaustive.append("all ordered trees with %d nodes x every start x all (mincount,maxcount) in {None,0..count+2}^2" % n)
    nrand = (20000 if T else 200) // ctx.nshards + 1
    for r in range(nrand):
        rng = ctx.rng("rand", r)
        n = rng.randint(7, 25)
        par, _ = gen.random_tree(rng, n)
        tags = [rng.choice([ABSENT, "u", "v", "w", 1, True, 1.0, None, ["l"], (1, 2), (), NAN, "caf\u00e9", "cafe\u0301"]) for _ in range(n)]  # (two spellings of one word: different strings)
        variant = VARIANTS[r % len(VARIANTS)]
        ctx.count("C14.variant." + variant)
        nodes = build(par, tags, variant)
        check_tree(ctx, nodes, tags, gen.children_of(par), rng.choice([0, rng.randrange(n)]), {"par": list(par), "tags": tags, "variant": variant}, bounds_all=False)
    histories(ctx)


def histories(ctx):
    """The same queries through search and cachedsearch on the same node objects after every
    mutation (attribute change or structural call): a cache inside the library would go stale."""
    from .. import forest as F
    from .. import trees as TR

    T = ctx.tier == "thorough"
    nh = (20000 if T else 160) // ctx.nshards + 1
    for h in range(nh):
        rng = ctx.rng("hist", h)
        k = rng.randint(3, 8)
        tags = [rng.choice([ABSENT, "u", "v", "u", None]) for _ in range(k)]
        first = True
        log = []
        tags0 = list(tags)
        for nodes, par, ch, case in TR.evolving_universe(ctx, rng, "AnyNode", k, rng.randint(4, 14), fault_rate=(0.3 if h % 2 else 0.0)):
            if first:
                for i, n in enumerate(nodes):
                    n.name = "nm"
                    if tags[i] is not ABSENT:
                        n.tag = tags[i]
                first = False
            elif rng.random() < 0.6:
                i = rng.randrange(k)
                new = rng.choice([ABSENT, "u", "v", None])
                log.append([len(case["history"]), i, new])
                tags[i] = new
                if new is ABSENT:
                    if hasattr(nodes[i], "tag"):
                        del nodes[i].tag
                else:
                    nodes[i].tag = new
            ctx.count("C14.after_mutation")
            roots = [i for i in range(k) if par[i] is None]
            c2 = dict(case, tags=list(tags), tags0=list(tags0), tag_changes=[list(x) for x in log])
            for s in [roots[0], rng.randrange(k)]:
                if not check_tree(ctx, nodes, list(tags), ch, s, c2, bounds_all=False):
                    return


def replay(ctx, wit):
    c = wit["case"]
    tags = norm_tags(c["tags"])
    if "history" in c:
        from .. import trees as TR

        # replays the structural part; attribute changes are applied at the recorded steps
        cur = None
        changes = c.get("tag_changes", [])
        states = TR.replay_universe(c)
        final = norm_tags(c["tags"])
        for step, (nodes, par, ch) in enumerate(states):
            if step == 0:
                # older witnesses do not carry the initial tags: start from the final ones then
                cur = norm_tags(c["tags0"]) if "tags0" in c else list(final)
                for i, n in enumerate(nodes):
                    n.name = "nm"
                    if cur[i] is not ABSENT:
                        n.tag = cur[i]
            for at, i, new in changes if "tags0" in c else ():
                if at == step:
                    new = ABSENT if new == ABSENT else new
                    cur[i] = new
                    if new is ABSENT:
                        if hasattr(nodes[i], "tag"):
                            del nodes[i].tag
                    else:
                        nodes[i].tag = new
            roots = [i for i in range(len(nodes)) if par[i] is None]
            for s_ in sorted(set([c.get("start", 0), roots[0]] + list(range(len(nodes))))):
                check_tree(ctx, nodes, cur, ch, s_, dict(c), bounds_all=False)
        return
    nodes = build(c["par"], tags, c.get("variant", "plain"))
    check_tree(ctx, nodes, tags, gen.children_of(c["par"]), c.get("start", 0), {"par": c["par"], "tags": c["tags"], "variant": c.get("variant", "plain")}, bounds_all=True)
