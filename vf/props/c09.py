"""C09 - RenderTree draws every tree faithfully; prefixes encode each node's position."""
from .. import gen
from .. import ref as R

LEVEL = "exploration"
TECHNIQUE = "rows (pre, fill, node identity) compared with reference rows built from the statement, plus an independent decoder that reconstructs the tree from the rendered text alone; str()/by_attr()/repr text oracles"
RULE = (
    "case = (tree, start, style, childiter, maxlevel); all ordered trees up to n nodes x every start x 4 built-in + 3 custom equal-width styles x "
    "childiter in {list, reversed, sorted-desc, filter-even, filter-all, generator} x maxlevel in {None,0..h+1}; random trees <=40 nodes with multi-line / "
    "empty / list attribute values and custom separators; distinct = hash of the configuration; trivial = single row"
)
ASSUMPTIONS = ["decoder labels are unique single-line strings that do not start with a style segment", "custom styles use three distinct strings of equal width"]
GATES = ["mon.C09.rows", "C09.very_wide_node", "mon.C09.decoder", "mon.C09.text", "mon.C09.repr", "C09.depth_ge_4", "C09.last_under_nonlast", "C09.childiter_changes_last", "C09.multiline", "C09.empty_value", "C09.maxlevel_cuts", "C09.abandoned_iteration", "C09.nested_use", "C09.after_mutation", "C09.long_lived_rendertree", "mon.C09.raising_childiter", "C09.maxlevel_int_subclass", "C09.repr_failed_before"]


def plan(tier, seed, jobs):
    n = max(2, min(16, jobs))
    return [{"assertions": i % 2, "shard": i, "nshards": n} for i in range(n)]


def styles(lib):
    A = lib
    return [
        ("ascii", A.AsciiStyle(), ("|   ", "|-- ", "+-- ")),
        ("cont", A.ContStyle, ("│   ", "├── ", "└── ")),
        ("round", A.ContRoundStyle(), ("│   ", "├── ", "╰── ")),
        ("double", A.DoubleStyle, ("║   ", "╠══ ", "╚══ ")),
        ("w1", A.AbstractStyle("|", "+", "`"), ("|", "+", "`")),
        ("w2", A.AbstractStyle("| ", "+-", "`-"), ("| ", "+-", "`-")),
        ("w5", A.AbstractStyle("┃    ", "┣━━━>", "┗━━━>"), ("┃    ", "┣━━━>", "┗━━━>")),
        ("default", None, ("│   ", "├── ", "└── ")),
    ]


def childiters(idmap):
    lab = lambda n: idmap[id(n)]  # noqa: E731
    return [
        ("list", list, None),
        ("default", None, None),
        ("reversed", reversed, lambda ks: list(reversed(ks))),
        ("sorted-desc", lambda ch: sorted(ch, key=lambda n: lab(n), reverse=True), lambda ks: sorted(ks, reverse=True)),
        ("filter-even", lambda ch: [c for c in ch if lab(c) % 2 == 0], lambda ks: [k for k in ks if k % 2 == 0]),
        ("filter-all", lambda ch: [], lambda ks: []),
        ("generator", lambda ch: (c for c in ch if lab(c) % 3), lambda ks: [k for k in ks if k % 3]),
    ]


def decode(lines, style, labels):
    """Rebuild (label, depth) list and parent links from the text alone."""
    vertical, cont, end = style
    w = len(end)
    empty = " " * w
    out = []
    for ln in lines:
        pos = 0
        segs = 0
        while True:
            seg = ln[pos:pos + w]
            if seg in (cont, end):
                depth = segs + 1
                label = ln[pos + w:]
                break
            if seg in (vertical, empty) and len(seg) == w:
                segs += 1
                pos += w
                continue
            if segs:
                return None
            depth = 0
            label = ln
            break
        if label not in labels:
            return None
        out.append((label, depth))
    par = {}
    stack = []
    kids = {}
    for label, d in out:
        if d > len(stack):
            return None
        del stack[d:]
        par[label] = stack[-1] if stack else None
        kids.setdefault(label, [])
        if stack:
            kids[stack[-1]].append(label)
        stack.append(label)
    return out[0][0] if out else None, par, kids


def expected_subtree(ch, s, citer, maxlevel):
    """parent/children of the drawn subtree (childiter order, maxlevel cut)."""
    limit = None if maxlevel is None else max(maxlevel, 1)
    kids = {}
    stack = [(s, 0)]
    while stack:
        x, d = stack.pop()
        ks = list(ch[x])
        if limit is not None and d + 1 >= limit:
            ks = []
        elif ks and citer is not None:
            ks = citer(ks)
        kids[x] = ks
        for c in ks:
            stack.append((c, d + 1))
    return kids


def check_config(ctx, lib, nodes, idmap, par, ch, s, st, ci, ml, case, names):
    stname, stobj, strs = st
    ciname, cif, cil = ci
    kw = {}
    if stobj is not None:
        kw["style"] = stobj
    if cif is not None:
        kw["childiter"] = cif
    if ml is not None:
        kw["maxlevel"] = ml
        if (s + len(stname) + len(ciname)) % 3 == 0:
            from .c06 import int_like

            kw["maxlevel"] = int_like(ml)  # the same number as a bool / an instance of an int subclass
            ctx.count("C09.maxlevel_int_subclass")
    cfg = dict(case, start=s, style=stname, childiter=ciname, maxlevel=ml)
    exp = R.render_rows(ch, s, strs, cil, ml)
    ctx.count("mon.C09.rows")
    rt = lib.RenderTree(nodes[s], **kw)
    rows = list(rt)
    obs = [(r[0], r[1], idmap.get(id(r[2]), "?")) for r in rows]
    if obs != [tuple(e) for e in exp]:
        ctx.violation("C09/rows/%s" % ciname, "reference-rows", cfg, expected=exp[:40], observed=obs[:40])
        return False
    if any(not (hasattr(r, "pre") and r.pre == r[0] and r.fill == r[1] and r.node is r[2]) for r in rows):
        ctx.violation("C09/rows/fields", "row-fields", cfg, expected="Row(pre, fill, node)", observed=repr(rows[:2])[:200])
        return False
    if len(exp) > 1 and max(len(e[0]) for e in exp) >= 4 * len(strs[2]):
        ctx.count("C09.depth_ge_4")
    if ml is not None and max(ml, 1) <= R.height(ch, s):
        ctx.count("C09.maxlevel_cuts")
    if cil is not None and any(ch[x] and cil(list(ch[x])) and cil(list(ch[x]))[-1] != ch[x][-1] for x in R.preorder_iter(ch, s)):
        ctx.count("C09.childiter_changes_last")
    for x in R.preorder_iter(ch, s):
        p = par[x]
        if p is not None and x != s and p != s and ch[p][-1] == x and ch[par[p]][-1] != p:
            ctx.count("C09.last_under_nonlast")
            break
    # second iteration of the same RenderTree object gives the same rows
    again = [(r[0], r[1], idmap.get(id(r[2]), "?")) for r in rt]
    if again != obs:
        ctx.violation("C09/rows/re-iteration", "reference-rows", cfg, expected=obs[:20], observed=again[:20])
        return False
    # the object is used again while one of its own iterations is suspended (nested rendering, two interleaved iterators)
    if 2 <= len(exp) <= 12:
        ctx.count("C09.nested_use")
        nested = []
        it2 = None
        for r in rt:
            nested.append((r[0], r[1], idmap.get(id(r[2]), "?")))
            rt.by_attr("name")
            if it2 is None:
                it2 = iter(rt)
            else:
                next(it2, None)
        if nested != obs:
            ctx.violation("C09/rows/nested-use", "reference-rows", cfg, expected=obs[:20], observed=nested[:20])
            return False
    # abandoned iterations (early stop, exception from a user callback at some row) leave nothing behind in the object
    if len(exp) >= 2:
        ctx.count("C09.abandoned_iteration")
        it = iter(rt)
        for _ in range(1 + len(exp) // 2):
            next(it)
        del it
        target = exp[-1][2]

        class Boom(Exception):
            pass

        def sel(node):
            if idmap[id(node)] == target:
                raise Boom()
            return "x"

        try:
            rt.by_attr(sel)
        except Boom:
            pass
        after = [(r[0], r[1], idmap.get(id(r[2]), "?")) for r in rt]
        if after != obs:
            ctx.violation("C09/rows/after-abandoned-iteration", "reference-rows", cfg, expected=obs[:20], observed=after[:20])
            return False
    # decoder on by_attr text
    ctx.count("mon.C09.decoder")
    text = rt.by_attr("name")
    lines = text.split("\n")
    dec = decode(lines, strs, set(names))
    kids = expected_subtree(ch, s, cil, ml)
    if dec is None:
        ctx.violation("C09/decoder/undecodable", "decoder", cfg, expected="decodable drawing", observed=lines[:30])
        return False
    root, dpar, dkids = dec
    want = {names[x]: [names[c] for c in ks] for x, ks in kids.items()}
    if root != names[s] or dkids != want:
        ctx.violation("C09/decoder/shape", "decoder", cfg, expected=want, observed=dkids)
        return False
    # str(): repr based
    ctx.count("mon.C09.text")
    exp_str = "\n".join(e[0] + repr(nodes[e[2]]) for e in exp)
    if all("\n" not in repr(nodes[e[2]]) for e in exp) and str(rt) != exp_str:
        ctx.violation("C09/str", "str-text", cfg, expected=exp_str[:600], observed=str(rt)[:600])
        return False
    return True


class ChildIterFailed(RuntimeError):
    """Raised by a lazy user childiter (a RuntimeError subclass, as RecursionError is)."""


def check_raising_childiter(ctx, lib, nodes, idmap, ch, s, case):
    """A lazy childiter that raises while a later sibling is fetched: the error must come out of the iteration
    (no row list that silently lacks the remaining siblings)."""
    wide = [x for x in R.preorder_iter(ch, s) if len(ch[x]) >= 2]
    if not wide:
        return True
    victim = ch[wide[-1]][1]

    def lazy(children):
        for c in children:
            if idmap[id(c)] == victim:
                raise ChildIterFailed("cannot fetch node %d" % victim)
            yield c

    ctx.count("mon.C09.raising_childiter")
    try:
        rows = list(lib.RenderTree(nodes[s], childiter=lazy))
        out = "returned %d rows" % len(rows)
    except ChildIterFailed:
        return True
    except Exception as e:  # noqa: B902
        out = "raised %s" % type(e).__name__
    ctx.violation("C09/rows/childiter-exception-swallowed", "user-exception-propagates", dict(case, start=s, raising_childiter_at=victim),
                  expected="ChildIterFailed propagates out of the iteration", observed=out)
    return False


class ML:
    """Mixin giving a node a multi-line / empty repr and attribute values."""


def check_text(ctx, lib, rng, case_seed):
    """Multi-line, empty, list/tuple and callable selectors; reprs."""
    from anytree import AnyNode, Node, NodeMixin

    class MLNode(NodeMixin):
        def __init__(self, rep, parent=None, **kw):
            self.rep = rep
            self.__dict__.update(kw)
            self.parent = parent

        def __repr__(self):
            return self.rep

    n = rng.randint(1, 10)
    par, _ = gen.random_tree(rng, n)
    ch = gen.children_of(par)
    vals = []
    pool = ["", "one", "a\nb", "a\nb\nc", "\n", "x\n", "\n\ny", "tab\tz", "a\r\nb", "é中", " lead", "a\x0bb"]
    for i in range(n):
        vals.append(rng.choice(pool))
    lvals = [rng.choice([[], ["l1"], ["l1", "l2"], ("t1", "t2", "t3"), [""], (), ["a\nb", "c"], [1, 2]]) for _ in range(n)]
    nodes = [MLNode(vals[i], txt=vals[i], lst=lvals[i], num=i * 7, **({"opt": "o%d" % i} if i % 2 else {})) for i in range(n)]
    for i, p in enumerate(par):
        if p is not None:
            nodes[i].parent = nodes[p]
    idmap = {id(o): i for i, o in enumerate(nodes)}
    strs = ("|   ", "|-- ", "+-- ")
    ml = rng.choice([None, None, 1, 2, 3])
    s = rng.choice([0, rng.randrange(n)])
    rt = lib.RenderTree(nodes[s], style=lib.AsciiStyle(), maxlevel=ml)
    rows = R.render_rows(ch, s, strs, None, ml)
    case = {"text_seed": case_seed, "par": list(par), "vals": vals, "lvals": [list(x) for x in lvals], "start": s, "maxlevel": ml}

    def fmt(valuefn, listmode):
        out = []
        for pre, fill, x in rows:
            v = valuefn(x)
            if listmode and isinstance(v, (list, tuple)):
                lines = list(v) or [""]
            else:
                lines = str(v).splitlines() or [""]
            if len(lines) > 1:
                ctx.count("C09.multiline")
            if lines == [""]:
                ctx.count("C09.empty_value")
            out.append("%s%s" % (pre, lines[0]))
            for ln in lines[1:]:
                out.append("%s%s" % (fill, ln))
        return "\n".join(out)

    checks = [
        ("str", str(rt), fmt(lambda x: vals[x], False)),
        ("by_attr-str", rt.by_attr("txt"), fmt(lambda x: vals[x], True)),
        ("by_attr-list", rt.by_attr("lst"), fmt(lambda x: lvals[x], True)),
        ("by_attr-int", rt.by_attr("num"), fmt(lambda x: x * 7, True)),
        ("by_attr-missing", rt.by_attr("opt"), fmt(lambda x: ("o%d" % x) if x % 2 else "", True)),
        ("by_attr-callable", rt.by_attr(lambda node: "<%s>" % node.txt), fmt(lambda x: "<%s>" % vals[x], True)),
        ("by_attr-callable-list", rt.by_attr(lambda node: node.lst), fmt(lambda x: lvals[x], True)),
    ]
    for nm, got, exp in checks:
        ctx.count("mon.C09.text")
        if got != exp:
            ctx.violation("C09/text/%s" % nm, "text-lines", case, expected=exp[:500], observed=got[:500])
            return False
    # reprs of Node / AnyNode
    sep = rng.choice(["/", "|", "::"])
    NodeS = type("NodeS", (Node,), {"separator": sep, "color": "grey", "zz": None})  # class-level defaults some instances override
    names = [rng.choice(["a", "b b", "q'uote", 7, 2.5, None, "x\ny", "é", ("x",), (), ("a", "b"), b"by", frozenset([1])]) for _ in range(n)]
    attrs = [gen.random_attrs(rng, json_only=False, identifiers_only=True, maxkeys=4) for _ in range(n)]
    for a in attrs:
        if rng.random() < 0.4:
            a[rng.choice(["color", "zz"])] = rng.choice(["red", 3, None])
    nn = [NodeS(names[i], **attrs[i]) for i in range(n)]
    aa = [AnyNode(**attrs[i]) for i in range(n)]
    for i, p in enumerate(par):
        if p is not None:
            nn[i].parent = nn[p]
            aa[i].parent = aa[p]
    for i in range(n):
        ctx.count("mon.C09.repr")
        pub = sorted((k, v) for k, v in attrs[i].items() if not k.startswith("_"))
        pth = sep + sep.join(str(names[x]) for x in R.path(par, i))
        exp = "NodeS(%s)" % ", ".join([repr(pth)] + ["%s=%r" % kv for kv in pub])
        if repr(nn[i]) != exp:
            ctx.violation("C09/repr/Node", "repr", dict(case, names=[repr(x) for x in names], attrs=repr(attrs[i])[:200], sep=sep), expected=exp, observed=repr(nn[i]))
            return False
        exp = "AnyNode(%s)" % ", ".join("%s=%r" % kv for kv in pub)
        if repr(aa[i]) != exp:
            ctx.violation("C09/repr/AnyNode", "repr", dict(case, attrs=repr(attrs[i])[:200]), expected=exp, observed=repr(aa[i]))
            return False
    return True


def run(ctx):
    from .. import trees as TR
    from ..common import lib as getlib

    lib = getlib()
    T = ctx.tier == "thorough"
    nmax = 9 if T else 7
    idx = 0
    sts = styles(lib)
    for n in range(1, nmax + 1):
        for par in gen.ordered_trees(n):
            idx += 1
            if not ctx.mine(idx):
                continue
            ch = gen.children_of(par)
            fam = TR.READ_FAMILIES[idx % len(TR.READ_FAMILIES)]
            names = ["n%02d" % i for i in range(n)]
            nodes = TR.build(par, fam, names)
            idmap = {id(o): i for i, o in enumerate(nodes)}
            cis = childiters(idmap)
            case = {"family": fam, "par": list(par)}
            full = n <= 6
            for s in range(n):
                h = R.height(ch, s)
                ctx.case((par, s, "raising-childiter"))
                check_raising_childiter(ctx, lib, nodes, idmap, ch, s, case)
                for si, st in enumerate(sts):
                    for cj, ci in enumerate(cis):
                        if not full and (si + cj + s + idx) % 4:
                            continue
                        for ml in [None] + list(range(0, h + 2)):
                            ctx.case((par, s, st[0], ci[0], ml), nontrivial=bool(ch[s]), sample=dict(case, start=s, style=st[0], childiter=ci[0], maxlevel=ml) if ctx.evals % 20011 == 0 else None)
                            if not check_config(ctx, lib, nodes, idmap, par, ch, s, st, ci, ml, case, names):
                                break
        ctx.exhaustive.append("all ordered trees with %d nodes x every start x 8 styles x 7 childiters x maxlevel None,0..h+1%s" % (n, "" if n <= 6 else " (1/4 of the style x childiter grid)"))
    nrand = (80000 if T else 480) // ctx.nshards + 1
    for r in range(nrand):
        rng = ctx.rng("rand", r)
        n = rng.randint(8, 40)
        wide = r % 29 == 5  # a node with more children than any small-int / fast-path threshold
        if wide:
            n = rng.choice((270, 300, 520))
            ctx.count("C09.very_wide_node")
        par, kind = gen.random_tree(rng, n, "star" if wide else "lastchild" if r % 4 == 0 else None)
        ch = gen.children_of(par)
        fam = TR.READ_FAMILIES[r % len(TR.READ_FAMILIES)]
        names = ["n%02d" % i for i in range(n)]
        nodes = TR.build(par, fam, names)
        idmap = {id(o): i for i, o in enumerate(nodes)}
        cis = childiters(idmap)
        case = {"family": fam, "par": list(par), "kind": kind}
        for _ in range(6):
            s = rng.choice([0, 0, rng.randrange(n)])
            st = rng.choice(sts)
            ci = rng.choice(cis)
            ml = rng.choice([None, None, 0, 1, 2, 3, 5, R.height(ch, s) + 1])
            ctx.case((par, s, st[0], ci[0], ml), sample=dict(case, start=s, style=st[0], childiter=ci[0], maxlevel=ml) if r % 100 == 0 else None)
            check_config(ctx, lib, nodes, idmap, par, ch, s, st, ci, ml, case, names)
        ctx.case(("text", r))
        check_text(ctx, lib, ctx.rng("text", r), [ctx.seed, ctx.shard, r])
    failed_repr_before(ctx, lib)
    histories(ctx, lib, sts)


def failed_repr_before(ctx, lib):
    """The repr of a node failed once (an attribute value whose own __repr__ raised); after the cause is gone the node -
    and every other node - is printed in full again."""
    class Bad:
        def __repr__(self):
            raise RuntimeError("no repr yet")

    for cls, mk in (("Node", lambda **kw: lib.Node("x", **kw)), ("AnyNode", lambda **kw: lib.AnyNode(id="x", **kw))):
        ctx.case(("failed-repr", cls))
        ctx.count("mon.C09.repr")
        node = mk(payload=Bad())
        try:
            repr(node)
        except RuntimeError:
            ctx.count("C09.repr_failed_before")
        node.payload = 1
        other = mk(payload=2)
        exp = ["Node('/x', payload=1)", "Node('/x', payload=2)"] if cls == "Node" else ["AnyNode(id='x', payload=1)", "AnyNode(id='x', payload=2)"]
        got = [repr(node), repr(other)]
        if got != exp or str(lib.RenderTree(node)) != exp[0]:
            ctx.violation("C09/repr/after-failed-repr", "repr", {"directed": "repr(%s) after an attribute value's __repr__ raised once" % cls}, expected=exp, observed=got)


def histories(ctx, lib, sts):
    """Rows, decoder and Node reprs (the separator-joined path of names) again on the same objects after every
    step of a mutation history, some calls aborted by a raising hook."""
    from .. import trees as TR

    T = ctx.tier == "thorough"
    nh = (20000 if T else 200) // ctx.nshards + 1
    for h in range(nh):
        rng = ctx.rng("hist", h)
        fam = ("Node", "NM", "LM", "Node")[h % 4]
        k = rng.randint(3, 9)
        names = ["n%d" % i for i in range(k)]
        held = []  # RenderTree objects created (and used) at an earlier step of the history
        for nodes, par, ch, case in TR.evolving_universe(ctx, rng, fam, k, rng.randint(4, 16), fault_rate=(0.3 if h % 2 else 0.0)):
            idmap = {id(o): i for i, o in enumerate(nodes)}
            cis = childiters(idmap)
            ctx.count("C09.after_mutation")
            # a long-lived RenderTree object draws the tree as it is now, not as it was when the object was created or last used
            for rt, s, st, ciname, ml, born in held:
                ctx.count("C09.long_lived_rendertree")
                cil = [c for c in cis if c[0] == ciname][0][2]
                exp = [tuple(e) for e in R.render_rows(ch, s, st[2], cil, ml)]
                obs = [(r[0], r[1], idmap.get(id(r[2]), "?")) for r in rt]
                if obs != exp:
                    ctx.violation("C09/rows/long-lived-object", "reference-rows", dict(case, hist_start=s, style=st[0], childiter=ciname, maxlevel=ml, created_at_step=born), expected=exp[:20], observed=obs[:20])
                    return
            if len(held) < 3:
                s = rng.randrange(k)
                st = rng.choice(sts)
                ci = rng.choice([c for c in cis if c[0] in ("list", "default", "reversed", "sorted-desc")])
                ml = rng.choice([None, None, 2, 3])
                kw = {}
                if st[1] is not None:
                    kw["style"] = st[1]
                if ci[1] is not None:
                    kw["childiter"] = ci[1]
                if ml is not None:
                    kw["maxlevel"] = ml
                rt = lib.RenderTree(nodes[s], **kw)
                # used in the ways a program uses it: materialised, counted, printed
                len(list(rt)), len(tuple(rt)), bool(rt), str(rt), rt.by_attr("name")  # noqa: B018
                held.append((rt, s, st, ci[0], ml, len(case["history"])))
            for _ in range(2):
                s = rng.randrange(k)
                st, ci = rng.choice(sts), rng.choice(cis)
                ml = rng.choice([None, None, 1, 2, 3])
                ctx.case(("hist", h, len(case["history"]), s, st[0], ci[0], ml), nontrivial=bool(ch[s]))
                if not check_config(ctx, lib, nodes, idmap, par, ch, s, st, ci, ml, dict(case, hist_start=s, style=st[0], childiter=ci[0], maxlevel=ml), names):
                    return
            if fam == "Node":
                for i in range(k):
                    ctx.count("mon.C09.repr")
                    exp = "HNode(%r)" % ("/" + "/".join(names[x] for x in R.path(par, i)))
                    if repr(nodes[i]) != exp:
                        ctx.violation("C09/repr/Node-after-mutation", "repr", dict(case, node=i), expected=exp, observed=repr(nodes[i]))
                        return


def replay(ctx, wit):
    if "history" in wit["case"]:
        from .. import trees as TR
        from ..common import lib as getlib

        lib = getlib()
        c = wit["case"]
        ctx.case(("replay",))
        sts = styles(lib)
        held = None
        for step, (nodes, par, ch) in enumerate(TR.replay_universe(c)):
            k = len(nodes)
            if "created_at_step" in c:
                idm = {id(o): i for i, o in enumerate(nodes)}
                st_ = [x for x in sts if x[0] == c.get("style", "ascii")][0]
                ci_ = [x for x in childiters(idm) if x[0] == c.get("childiter", "list")][0]
                if held is not None:
                    exp = [tuple(e) for e in R.render_rows(ch, c["hist_start"], st_[2], ci_[2], c.get("maxlevel"))]
                    obs = [(r[0], r[1], idm.get(id(r[2]), "?")) for r in held]
                    if obs != exp:
                        ctx.violation("C09/rows/long-lived-object", "reference-rows", dict(c), expected=exp[:20], observed=obs[:20])
                        return
                if step == c["created_at_step"]:
                    kw = {}
                    if st_[1] is not None:
                        kw["style"] = st_[1]
                    if ci_[1] is not None:
                        kw["childiter"] = ci_[1]
                    if c.get("maxlevel") is not None:
                        kw["maxlevel"] = c["maxlevel"]
                    held = lib.RenderTree(nodes[c["hist_start"]], **kw)
                    len(list(held)), len(tuple(held)), bool(held), str(held), held.by_attr("name")  # noqa: B018
            names = ["n%d" % i for i in range(k)]
            idmap = {id(o): i for i, o in enumerate(nodes)}
            cis = childiters(idmap)
            for s in range(k):
                st = [x for x in sts if x[0] == c.get("style", "ascii")][0]
                ci = [x for x in cis if x[0] == c.get("childiter", "list")][0]
                check_config(ctx, lib, nodes, idmap, par, ch, s, st, ci, c.get("maxlevel"), c, names)
            if c["family"] == "Node":
                for i in range(k):
                    exp = "HNode(%r)" % ("/" + "/".join(names[x] for x in R.path(par, i)))
                    if repr(nodes[i]) != exp:
                        ctx.violation("C09/repr/Node-after-mutation", "repr", dict(c, node=i), expected=exp, observed=repr(nodes[i]))
        return
    _replay_static(ctx, wit)


def _replay_static(ctx, wit):
    from .. import trees as TR
    from ..common import lib as getlib
    import random

    lib = getlib()
    c = wit["case"]
    ctx.case(("replay",))
    if "raising_childiter_at" in c:
        par = c["par"]
        nodes = TR.build(par, c["family"], ["n%02d" % i for i in range(len(par))])
        check_raising_childiter(ctx, lib, nodes, {id(o): i for i, o in enumerate(nodes)}, gen.children_of(par), c["start"], c)
        return
    if "text_seed" in c:
        seed, shard, r = c["text_seed"]
        check_text(ctx, lib, random.Random("%s/%s/%s/%s" % (seed, "C09", shard, "text/%d" % r)), c["text_seed"])
        return
    par = c["par"]
    n = len(par)
    names = ["n%02d" % i for i in range(n)]
    nodes = TR.build(par, c["family"], names)
    idmap = {id(o): i for i, o in enumerate(nodes)}
    st = [x for x in styles(lib) if x[0] == c["style"]][0]
    ci = [x for x in childiters(idmap) if x[0] == c["childiter"]][0]
    check_config(ctx, lib, nodes, idmap, par, gen.children_of(par), c["start"], st, ci, c["maxlevel"], c, names)
