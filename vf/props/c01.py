"""C01 - parent and children links always describe one consistent forest."""
from . import forest_engine as E

LEVEL = "fault_enumeration"
TECHNIQUE = "runtime invariant monitor after every call of exhaustive small-scope + random-history workloads with fault injection at all eight hooks, both assertion modes"
RULE = (
    "case = (node family, assertion mode, labelled ordered forest state, structural call, fault plan); exhaustive over all forests "
    "with k<=3 nodes x all calls x every hook position (once / twice / persistent), all k=4 forests x all calls fault-free plus fault "
    "positions on a stride (thorough: all), other node classes and random histories; distinct = 64-bit hash of the case tuple; "
    "trivial = single-node universe with a non-children call"
)
ASSUMPTIONS = [
    "faults are injected only where user code can run (the eight notification hooks); asynchronous exceptions inside an ATOMIC block are not injected",
    "hooks mutate the tree re-entrantly only in three restricted, never-raising forms (a pre hook that detaches another child of its parent argument, a _pre_attach hook that first attaches another root to the same parent, and - assertion mode off - a _post_detach hook inside a children deletion that gives the old parent a new child)",
    "one forest is homogeneous in mixin family (NodeMixin-based classes mixed freely; LightNodeMixin-based separate)",
    "state is observed through the public parent/children properties only",
]
GATES = [
    "mon.C01.deep_chain", "mon.C01.wide_node", "mon.C01.mixed_mixins",
    "mon.C01.invariant", "outcome.returned", "outcome.TreeError", "outcome.LoopError", "outcome.TypeError", "outcome.Injected",
    "outcome.RecursionError", "move.between_trees", "histories", "mon.C01.insitu_invariant", "insitu.tests_run", "mon.C01.assertion_switch", "C01.env_unset", "C01.env_1",
] + ["faulted." + k for k in (
    "pre_detach", "post_detach", "pre_attach", "post_attach", "pre_detach_children", "post_detach_children",
    "pre_attach_children", "post_attach_children")]
MONITORS = ("C01",)


def plan(tier, seed, jobs):
    return E.plan_shards(tier, seed, jobs, both_modes=True)


def config_monitor(ctx):
    """'Both settings of the internal-assertion switch (ANYTREE_ASSERTIONS off, the default, and on)': the switch the
    library runs with is the one the environment of this worker asks for."""
    import os

    try:
        from anytree import config
    except ImportError:
        return
    got = getattr(config, "ASSERTIONS", None)
    if got is None:
        return  # the switch lives elsewhere in this tree: nothing to compare
    ctx.count("mon.C01.assertion_switch")
    env = os.environ.get("ANYTREE_ASSERTIONS")
    ctx.count("C01.env_%s" % ("unset" if env is None else env))
    want = env == "1"
    if bool(got) != want:
        ctx.violation("C01/assertion-switch/%s" % ("unset" if env is None else env), "configuration", {"ANYTREE_ASSERTIONS": env},
                      expected="internal assertions %s" % ("on" if want else "off (the default)"), observed="anytree.config.ASSERTIONS = %r" % (got,))


def run(ctx):
    config_monitor(ctx)
    from . import deepchain

    deepchain.run(ctx, "C01")
    from . import widenode

    widenode.run(ctx, "C01")
    E.Engine(ctx, MONITORS, faults=True).run()
    if ctx.shard == 0:
        import sys

        sys.setrecursionlimit(1000)
        from . import insitu

        insitu.run(ctx)


def replay(ctx, wit):
    if wit.get("case", {}).get("wide_node"):
        from . import widenode

        ctx.case(("replay",))
        return widenode.run(ctx, "C01")
    if wit.get("case", {}).get("deep_chain"):
        from . import deepchain

        ctx.case(("replay",))
        return deepchain.run(ctx, "C01")
    E.replay(ctx, wit, MONITORS)
