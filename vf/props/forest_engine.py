"""Workload of the forest engine shared by C01, C02, C03, C16 and C18.

Every shard walks the same deterministic enumeration and executes the cases
whose running index it owns; random histories are seeded per shard.
"""
import itertools

from .. import gen
from .. import model as M


def tup(x):
    if isinstance(x, list):
        return tuple(tup(y) for y in x)
    return x


def plan_shards(tier, seed, jobs, both_modes=False, recursionlimit=130):
    n = max(2, min(16, jobs))
    specs = []
    if both_modes:
        half = max(1, n // 2)
        for mode in (0, 1):
            for i in range(half):
                specs.append({"assertions": mode, "shard": i, "nshards": half, "recursionlimit": recursionlimit})
    else:
        for i in range(n):
            specs.append({"assertions": i % 2, "shard": i, "nshards": n, "recursionlimit": recursionlimit})
    return specs


class Engine:
    def __init__(self, ctx, monitors, faults=True, lockstep=False, hist_faults=False):
        from .. import forest as F

        self.F = F
        self.ctx = ctx
        self.monitors = monitors
        self.faults = faults
        self.hist_faults = hist_faults or faults  # hook faults as a stimulus inside histories (judged or not)
        self.lockstep = lockstep
        self.known = set(ctx.spec.get("known") or [])
        self.idx = 0
        self.thorough = ctx.tier == "thorough"

    # ---------------------------------------------------------- one execution
    def one(self, family, ch, call, planspec, snaps_on=True):
        F = self.F
        ctx = self.ctx
        key = (family, ctx.assertions, ch, call, planspec)
        if self.lockstep:
            pair = F.LOCKSTEP_PAIRS.get(family, ("NM", "LM"))
            with ctx.guard({"family": "+".join(pair), "state": [list(c) for c in ch], "call": F._jsonable(call), "plan": F._jsonable(planspec)}):
                exn = F.execute(pair[0], ch, call, planspec, snaps_on)
                exl = F.execute(pair[1], ch, call, planspec, snaps_on)
                self.observe(exn, key)
                F.mon_c18(ctx, exn, exl)
                return exn
            return None
        with ctx.guard({"family": family, "state": [list(c) for c in ch], "call": F._jsonable(call), "plan": F._jsonable(planspec)}):
            ex = F.execute(family, ch, call, planspec, snaps_on)
            self.observe(ex, key)
            self.apply(ex)
            return ex
        return None

    def observe(self, ex, key):
        ctx = self.ctx
        trivial = len(ex.pre) == 1 and ex.call[0] != "setchildren"
        ctx.case(key, nontrivial=not trivial, sample=self._sample(ex) if ctx.evals % 997 == 0 or ctx.evals < 3 else None)
        ctx.count("outcome." + ex.outcome)
        ctx.count("op." + ex.call[0])
        ctx.count("plan." + ex.planspec[0])
        for _, kind, _ in ex.faults:
            ctx.count("faulted." + kind)
        ctx.count("hook_events", len(ex.events))
        if ex.call[0] == "setparent" and ex.outcome == "returned" and isinstance(ex.call[2], int):
            n, p = ex.call[1], ex.call[2]
            old = ex.pre[n][0]
            if old is not None and old != p:
                ctx.count("move.between_parents")
                if _root(ex.pre, old) != _root(ex.pre, p):
                    ctx.count("move.between_trees")
                if len(ex.pre[old][1]) >= 3:
                    ctx.count("move.leaving_2plus_siblings")
        if ex.call[0] == "setchildren" and ex.outcome == "returned":
            n = ex.call[1]
            xs = [x for x in ex.call[2] if isinstance(x, int)]
            par = [p for p, _ in ex.pre]
            if any(par[x] not in (None, n) for x in xs):
                ctx.count("setchildren.steals_from_other_parent")
            if any(x in ex.pre[n][1] for x in xs) and tuple(xs) != ex.pre[n][1]:
                ctx.count("setchildren.reorders_or_keeps_some")
            if any(n in M.ancestors_or_self(par, x) and par[x] != n for x in xs):
                ctx.count("setchildren.takes_descendant")

    def _sample(self, ex):
        return {"case": ex.case(), "outcome": ex.outcome, "hook_events": len(ex.events), "post": [[p, list(c)] for p, c in ex.post]}

    def apply(self, ex):
        F = self.F
        ctx = self.ctx
        mons = self.monitors
        if "C01" in mons:
            F.mon_c01(ctx, ex)
        if "C02" in mons:
            F.mon_c02(ctx, ex)
        if "C03" in mons:
            F.mon_c03(ctx, ex, self.known)
        if "C16" in mons:
            F.mon_c16(ctx, ex)

    # ------------------------------------------------------ per (state, call)
    def explore(self, family, ch, call, level):
        """level: 0 fault-free only; 1 once + persist(kind); 2 also per-node
        persistent pre-hooks and double faults (fault during rollback)."""
        F = self.F
        clean = self.one(family, ch, call, ("none",))
        if clean is None:
            return
        # restricted re-entrancy (parent assignments only): a pre hook that detaches another child of its
        # parent argument, e.g. a bounded parent evicting its oldest child
        if call[0] == "setparent" and clean.snaps and clean.snaps[0] is not None:
            for i in range(len(clean.events)):
                kind, n, arg = clean.events[i]
                if kind in ("pre_attach", "pre_detach") and isinstance(arg, int) and len(clean.snaps[i][arg][1]) > (1 if kind == "pre_detach" else 0):
                    self.one(family, ch, call, ("evict", i))
                if kind == "pre_attach" and isinstance(arg, int) and len(ch) > 2:
                    self.one(family, ch, call, ("admit", i))
        if not self.ctx.assertions and call[0] in ("delchildren", "setchildren") and len(ch) > 2 and clean.outcome == "returned" and clean.snaps and clean.snaps[0] is not None:
            # assertion mode off only: a per-child _post_detach hook leaves a tombstone child in the parent it left
            for i, (kind, n, arg) in enumerate(clean.events):
                if kind == "post_detach" and arg == call[1]:
                    self.one(family, ch, call, ("tombstone", i))
        if self.lockstep and call[0] in ("delchildren", "setchildren"):
            # lock step only (no model is needed): a _pre_detach_children hook that re-homes one of the children
            for i, (kind, n, arg) in enumerate(clean.events):
                if kind == "pre_detach_children" and arg and len(ch) > 2:
                    self.one(family, ch, call, ("rehome", i))
                    self.ctx.count("C18.rehoming_group_hook")
        if not self.faults or level == 0:
            return
        k = len(ch)
        nclean = len(clean.events)
        self.ctx.count("fault_positions", nclean)
        for i in range(nclean):
            ex = self.one(family, ch, call, ("once", i))
            if ex is None:
                continue
            if level >= 2:
                for j in range(i + 1, len(ex.events)):
                    self.one(family, ch, call, ("multi", (i, j)))
                # the user's exception may be of any class: assert-style vetoes, ValueError, RuntimeError, a TreeError subclass
                self.one(family, ch, call, ("once", i, ("AssertionError", "ValueError", "RuntimeError", "TreeError")[(i + len(ch)) % 4]))
        kinds_seen = {e[0] for e in clean.events}
        if level >= 2 and call[0] == "setchildren" and not clean.events:
            # a request refused before any hook fired: persistent vetoes must stay irrelevant for it
            for kind in F.PRE_KINDS:
                self.one(family, ch, call, ("persist", kind, None))
        for kind in F.KINDS:
            # a persistent fault on a kind that never fires in the clean run can
            # still matter in the rollback only if some fault happens: skip
            if kind in kinds_seen:
                self.one(family, ch, call, ("persist", kind, None))
        if level >= 2:
            for kind in F.PRE_KINDS:
                if kind not in kinds_seen:
                    continue
                labs = sorted({e[1] for e in clean.events if e[0] == kind})
                for lab in labs:
                    self.one(family, ch, call, ("persist", kind, lab))

    def mine(self):
        self.idx += 1
        return self.ctx.mine(self.idx)

    # --------------------------------------------------------------- workload
    def run(self):
        ctx = self.ctx
        F = self.F
        T = self.thorough
        fams = ("NM",) if self.lockstep else ("NM", "LM")
        if ctx.shard % 2 == 1:
            # every other shard runs in a process in which the rest of the API has been used before - including imports,
            # exports and lookups that failed half way - on the same node classes
            from .. import noise

            ctx.count("ambient_api_use_before_workload", noise.api_noise([F.NM, F.LM, F.HNode, F.HAny, F.FalsyNM]))
        # P1: k <= 3, everything
        for fam in fams:
            for k in (1, 2, 3):
                calls = list(F.all_calls(k, "LM" if self.lockstep else fam, itkinds=("list",)))
                extra = [("setchildren", n, xs, it) for n in range(k) for xs in gen.sequences_norep(range(k), k) for it in ("tuple", "gen", "iter")]
                for ch in gen.ordered_forests(k):
                    for call in calls:
                        if self.mine():
                            self.explore(fam, ch, call, 2)
                    for call in extra:
                        if self.mine():
                            self.explore(fam, ch, call, 0)
                ctx.exhaustive.append("family %s: all %d ordered forests over %d nodes x all %d calls x every hook fault position (once, twice, persistent)" % (fam, len(gen.ordered_forests(k)), k, len(calls)))
        # P2: k = 4
        for fam in fams:
            calls = list(F.all_calls(4, "LM" if self.lockstep else fam, itkinds=("list",)))
            forests = gen.ordered_forests(4)
            stride = 1 if T else 12
            for si, ch in enumerate(forests):
                for ci, call in enumerate(calls):
                    if not self.mine():
                        continue
                    lvl = 0
                    if self.faults and (si * 7919 + ci * 31 + ctx.seed) % stride == 0:
                        lvl = 2 if (T and (si + ci) % 4 == 0) else 1
                    self.explore(fam, ch, call, lvl)
            ctx.exhaustive.append("family %s: all %d ordered forests over 4 nodes x all %d calls fault-free%s" % (
                fam, len(forests), len(calls), "; every hook fault position (once, persistent)" if T else "; fault positions on every %dth pair" % stride))
        # P3: k = 5 (thorough): repetition-free children sequences
        if T:
            for fam in fams:
                forests = gen.ordered_forests(5)
                calls = list(F.all_calls(5, fam, rep=False, nonnodes=False, itkinds=("list",)))
                for si, ch in enumerate(forests):
                    for ci, call in enumerate(calls):
                        if not self.mine():
                            continue
                        lvl = 1 if self.faults and (si * 7919 + ci * 31 + ctx.seed) % 40 == 0 else 0
                        self.explore(fam, ch, call, lvl)
                ctx.exhaustive.append("family %s: all %d ordered forests over 5 nodes x all %d repetition-free calls fault-free" % (fam, len(forests), len(calls)))
        # P4': lock step also for value-equality classes (equal-comparing distinct siblings) and always-falsy classes
        if self.lockstep:
            for k in (2, 3, 4):
                calls = list(F.all_calls(k, "LM", itkinds=("list",)))
                for si, ch in enumerate(gen.ordered_forests(k)):
                    for ci, call in enumerate(calls):
                        if not self.mine():
                            continue
                        if k == 4 and (si + ci) % 6:
                            continue
                        self.explore("VALNM" if (si + ci) % 2 else "FALSYNMB", ch, call, 1 if (si + ci) % 3 == 0 else 0)
        # P4: other node classes (Node, AnyNode, symlink mixes, value-equality and falsy classes)
        if not self.lockstep:
            for fam in ("Node", "AnyNode", "MIX", "VALNM", "VALLM", "FALSY", "FALSYLM", "ITER", "LIST", "TUPLE"):
                for k in (2, 3) + ((4,) if T else ()):
                    calls = list(F.all_calls(k, fam, itkinds=("list",)))
                    stride = 1 if (k < 4) else 6
                    for si, ch in enumerate(gen.ordered_forests(k)):
                        for ci, call in enumerate(calls):
                            if not self.mine():
                                continue
                            if (si + ci) % stride:
                                continue
                            self.explore(fam, ch, call, 1 if (T or (si + ci) % 3 == 0) else 0)
        # P5: exhaustive short histories (state carried from call to call on the same objects)
        self.short_histories()
        # P6: long random histories
        self.histories()

    def short_histories(self):
        """Every sequence of three parent assignments on every forest over 3 nodes (and a stride of the
        two-call sequences of all calls): what a call leaves behind in the objects matters to the next."""
        ctx = self.ctx
        F = self.F
        fams = ("NM", "FALSYNMB") if self.lockstep else ("NM", "LM", "FALSY", "FALSYLM")
        k = 3
        U = list(range(k))
        sp = [("setparent", n, p) for n in U for p in [None] + U]
        allc = list(F.all_calls(k, "LM", itkinds=("list",)))
        for fam in fams:
            seqs = []
            for a in sp:
                for b in sp:
                    for c in sp:
                        seqs.append((a, b, c))
            stride = 1 if (self.thorough or fam in ("NM", "LM")) else 4
            for si, ch in enumerate(gen.ordered_forests(k)):
                for qi, seq in enumerate(seqs):
                    if not self.mine():
                        continue
                    if (si + qi) % stride:
                        continue
                    self.run_history(fam, ch, [(c, ("none",)) for c in seq])
                for qi, (a, b) in enumerate((a, b) for a in allc for b in allc):
                    if not self.mine():
                        continue
                    if (si * 31 + qi) % (7 if self.thorough else 29):
                        continue
                    self.run_history(fam, ch, [(a, ("none",)), (b, ("none",))])
            ctx.exhaustive.append("family %s: all %d three-call sequences of parent assignments on all 19 forests over 3 nodes%s" % (fam, len(seqs), "" if stride == 1 else " (every 4th)"))

    def run_history(self, fam, ch0, steps):
        ctx = self.ctx
        F = self.F
        if self.lockstep:
            fms = F.LOCKSTEP_PAIRS.get(fam, ("NM", "LM"))
            recs = [F.Rec(F.materialise(fms[0], ch0)), F.Rec(F.materialise(fms[1], ch0))]
        else:
            recs = [F.Rec(F.materialise(fam, ch0))]
            fms = (fam,)
        hist = []
        for call, planspec in steps:
            hist.append([F._jsonable(call), F._jsonable(planspec)])
            case = {"family": fam, "state": [list(c) for c in ch0], "history": hist}
            with ctx.guard(case):
                exs = [F.run_call(r, fm, call, F.Plan(planspec)) for r, fm in zip(recs, fms)]
                ex = exs[0]
                self.observe(ex, ("shist", fam, ctx.assertions, ch0, repr(hist)))
                ctx.count("short_history_steps")
                nv = ctx.counters["violations"]
                ctx.case_extra = {"history_prefix": (lambda h=hist: [list(x) for x in h[:-1]]), "history_state": case["state"], "history_family": fam}
                try:
                    if self.lockstep:
                        F.mon_c18(ctx, exs[0], exs[1])
                    else:
                        self.apply(ex)
                finally:
                    ctx.case_extra = None
                if M.invariant(ex.post) or ctx.counters["violations"] != nv:
                    return
                continue
            return

    # -------------------------------------------------------------- histories
    def random_call(self, rng, k, par, fam):
        r = rng.random()
        U = range(k)
        if r < 0.55:
            n = rng.randrange(k)
            p = rng.choice([None] + list(U))
            return ("setparent", n, p)
        if r < 0.62:
            return ("delchildren", rng.randrange(k))
        if r < 0.66 and self.F.base_family(fam) != "LM":
            n = rng.randrange(k)
            if rng.random() < 0.5:
                return ("setparent", n, ("nonnode", rng.choice(["object", "str", "int", "dict", "plainclass"])))
            xs = [rng.randrange(k) for _ in range(rng.randint(0, 3))] + [("nonnode", rng.choice(["object", "none", "int"]))]
            rng.shuffle(xs)
            return ("setchildren", n, tuple(xs), "list")
        n = rng.randrange(k)
        m = rng.randint(0, min(k, 5))
        if rng.random() < 0.15:
            xs = [rng.randrange(k) for _ in range(m)]  # repetitions / self / ancestors possible
        else:
            # mostly legal: avoid ancestors of n
            anc = set(M.ancestors_or_self(par, n))
            pool = [u for u in U if u not in anc] if rng.random() < 0.8 else list(U)
            rng.shuffle(pool)
            xs = pool[:m]
        it = rng.choice(["list", "list", "tuple", "gen", "iter"])
        if rng.random() < 0.02:
            return ("setchildren", n, (), "noniter")
        return ("setchildren", n, tuple(xs), it)

    def histories(self):
        ctx = self.ctx
        F = self.F
        T = self.thorough
        total = 6000 if T else 480
        per = max(1, total // ctx.nshards)
        fams = ("NM", "NM", "VALNM", "FALSYNMB") if self.lockstep else ("NM", "LM", "MIX", "Node", "AnyNode", "VALNM", "VALLM", "FALSY", "FALSYLM")
        for h in range(per):
            rng = ctx.rng("hist", h)
            fam = fams[h % len(fams)] if h % 3 else fams[h % 2 % len(fams)]
            k = rng.randint(5, 12 if T else 9)
            steps = rng.randint(20, 150 if T else 50)
            ch0 = gen.random_forest(rng, k)
            if self.lockstep:
                pair = F.LOCKSTEP_PAIRS[fam]
                recs = [F.Rec(F.materialise(pair[0], ch0)), F.Rec(F.materialise(pair[1], ch0))]
            else:
                recs = [F.Rec(F.materialise(fam, ch0))]
            hist = []
            frate = rng.choice([0.0, 0.2, 0.4]) if self.hist_faults else 0.0
            ctx.count("histories")
            for s in range(steps):
                snap = recs[0].snapshot()
                par = [p for p, _ in snap]
                call = self.random_call(rng, k, par, "LM" if self.lockstep else fam)
                if rng.random() < frate:
                    r = rng.random()
                    if r < 0.6:
                        planspec = ("once", rng.randrange(0, 8))
                    elif r < 0.75:
                        planspec = ("multi", tuple(sorted(rng.sample(range(0, 14), 2))))
                    else:
                        planspec = ("persist", rng.choice(F.KINDS), rng.choice([None, rng.randrange(k)]))
                elif self.lockstep and call[0] != "setparent" and rng.random() < 0.15:
                    planspec = ("rehome", 0)
                else:
                    planspec = ("none",)
                hist.append([F._jsonable(call), F._jsonable(planspec)])
                case = {"family": fam, "state": [list(c) for c in ch0], "history": hist}
                with ctx.guard(case):
                    exs = [F.run_call(r, fm, call, F.Plan(planspec)) for r, fm in zip(recs, pair if self.lockstep else (fam,))]
                    ex = exs[0]
                    key = ("hist", fam, ctx.assertions, M.ch_of(ex.pre), call, planspec)
                    self.observe(ex, key)
                    ctx.count("history_steps")
                    nv = ctx.counters["violations"]
                    ctx.case_extra = {"history_prefix": (lambda h=hist: [list(x) for x in h[:-1]]), "history_state": case["state"], "history_family": fam}
                    try:
                        if self.lockstep:
                            F.mon_c18(ctx, exs[0], exs[1])
                        else:
                            self.apply(ex)
                    finally:
                        ctx.case_extra = None
                    if ctx.counters["violations"] != nv:
                        break
                    if M.invariant(ex.post) and not (self.hist_faults and not self.faults):
                        break  # (C02 goes on: its next fault-free call is judged on what was left behind)
                    continue
                break  # watchdog fired


def _root(snap, n):
    steps = 0
    while snap[n][0] is not None and steps <= len(snap):
        n = snap[n][0]
        steps += 1
    return n


def replay(ctx, wit, monitors, lockstep=False):
    from .. import forest as F

    eng = Engine(ctx, monitors, faults=True, lockstep=lockstep)
    case = wit["case"]
    call = tup(case["call"]) if "call" in case else None
    if "history" in case and call is None:
        # watchdog witness from a history
        fam = case["family"]
        rec = F.Rec(F.materialise(fam, tup(case["state"])))
        for c, p in case["history"]:
            ex = F.run_call(rec, fam, tup(c), F.Plan(tup(p)))
            eng.apply(ex)
        return
    fam = case.get("family", "NM")
    if "+" in fam:
        fam = fam.split("+")[0]
    if "history_prefix" in case:
        hf = case["history_family"]
        rec = F.Rec(F.materialise(hf, tup(case["history_state"])))
        for c, p in case["history_prefix"]:
            F.run_call(rec, hf, tup(c), F.Plan(tup(p)))
        with ctx.guard(case):
            ex = F.run_call(rec, hf, call, F.Plan(tup(case["plan"])))
            ctx.case(("replay",), True)
            eng.apply(ex)
        return
    eng.one(fam, tup(case["state"]), call, tup(case["plan"]))
