"""C19 - pickle and deepcopy yield an independent, consistent, isomorphic tree."""
import copy
import pickle

from .. import gen
from .. import model as M

LEVEL = "exploration"
TECHNIQUE = "copies produced by pickle (every protocol) and deepcopy are walked in parallel with the original to build a bijection; class, order, attribute and target checks through it, id-disjointness, forest invariant on the copy, then mutation of either side with a snapshot monitor on the other"
RULE = (
    "case = (tree shape, class mix incl. symlinks inside/outside/link-to-link, entry node, protocol or deepcopy); all ordered trees up to n nodes x every entry node x class mixes "
    "x protocols 0-5 (2-5 for __slots__ classes) + deepcopy; random trees <=40 nodes, depth <=100; distinct = hash of the configuration; trivial = none"
)
ASSUMPTIONS = ["the workers run with a recursion limit of 8 000 frames: copies of chains up to 100 levels are demanded, the number of frames pickle / deepcopy need per level is not","depth <= 100 (pickle/deepcopy recursion limits are Python's)", "node classes are importable module-level classes (a pickle requirement)"]
GATES = ["mon.C19.bijection", "mon.C19.independence", "C19.pickle", "C19.deepcopy", "C19.symlink_inside", "C19.symlink_outside", "C19.link_to_link", "C19.slots", "C19.entry_not_root", "C19.special_method_classes", "C19.after_faulted_history", "C19.tree_used_before_copy"]

MIXES = ("Node", "AnyNode", "NM", "LM", "MIXSYM", "HNode", "FALSY", "VALNM", "VALLM", "FALSYNODE", "LMSUB", "FALSYLM", "NMSLOTS")


REPLAY_SPEC = {"recursionlimit": 8000}


def plan(tier, seed, jobs):
    n = max(2, min(16, jobs))
    # pickle and deepcopy recurse through the tree with several frames per level; how many is an implementation detail of
    # the node classes, so the interpreter's default limit must not decide whether a 100-level chain can be copied
    return [{"assertions": i % 2, "shard": i, "nshards": n, "recursionlimit": 8000} for i in range(n)]


def build(par, mix, rng):
    """Returns (nodes of the main tree, extra nodes of other trees reachable through targets)."""
    from .. import forest as F

    n = len(par)
    extra = []
    if mix == "Node":
        # incl. keys named like read-only properties, and immutable containers holding mutable objects
        # also attributes whose values are None / empty / zero (they are attributes all the same)
        nodes = [F.Node("n%d" % i, val=i, data={"k": [i, "x"]}, size=1000 + i, depth="d%d" % i, tup=([i], {"d": i}), fz=frozenset([(i, "f")]),
                        nothing=None, empty=[], zero=0, blank="", nodict={}) for i in range(n)]
    elif mix == "AnyNode":
        nodes = [F.AnyNode(id=i, tag="t%d" % i) for i in range(n)]
    elif mix == "NM":
        nodes = [F.NM("n%d" % i) for i in range(n)]
    elif mix == "LM":
        nodes = [F.LM("n%d" % i) for i in range(n)]
    elif mix == "FALSY":
        nodes = [F.FalsyNM("n%d" % i, i % 2) for i in range(n)]  # leaves are falsy (len == number of children)
    elif mix == "FALSYNODE":
        nodes = [F.FalsyNode("n%d" % i, w=i) for i in range(n)]  # every node is falsy
    elif mix == "VALNM":
        nodes = [F.ValNM("n%d" % i, i % 2) for i in range(n)]  # distinct nodes compare and hash equal
    elif mix == "VALLM":
        nodes = [F.ValLM("n%d" % i, i % 2) for i in range(n)]
    elif mix == "LMSUB":
        # slotted base class first (root), then subclasses that add slots of their own
        nodes = [F.LM("n%d" % i) if i % 3 == 0 else (F.LM2 if i % 3 == 1 else F.LM3)("n%d" % i, extra=(None if i % 2 else ("x", i)), more=[i]) for i in range(n)]  # some slots hold None
    elif mix == "FALSYLM":
        nodes = [F.FalsyLM("n%d" % i, i % 2) for i in range(n)]
    elif mix == "NMSLOTS":
        # a NodeMixin subclass that declares slots of its own: instances carry both a __dict__ and slot values
        nodes = [slotted_nm_class()("n%d" % i, tagslot=("s", i), other=[i], free=i * 2) for i in range(n)]
    elif mix == "HNode":
        nodes = [F.HNode("n%d" % i, w=i * 1.5) for i in range(n)]
    else:
        # rotation of classes, symlinks with targets inside the tree, outside, and link to link
        other_root = F.Node("other", mark="o")
        other_kid = F.AnyNode(parent=other_root, id="ok", name="ok")
        extra = [other_root, other_kid]
        nodes = []
        for i in range(n):
            r = i % 6
            if r == 0 or i == 0:
                nodes.append(F.Node(i if i % 12 == 0 else "n%d" % i, val=i, nothing=None))  # the link target nodes[0] has a non-string name
            elif r == 1:
                nodes.append(F.SymlinkNode(nodes[0]))  # inside the tree
            elif r == 2:
                nodes.append(F.HSym(other_kid))  # outside the tree
            elif r == 3:
                nodes.append(F.SymlinkNode(nodes[i - 2]))  # link to link (i-2 is a symlink when i >= 3)
            elif r == 4:
                nodes.append(F.HSymMixin(nodes[i - 1]))
            else:
                nodes.append(F.AnyNode(id=i, name="a%d" % i))  # a name keeps Node.__repr__ of mixed trees working
    for i, p in enumerate(par):
        if p is not None:
            nodes[i].parent = nodes[p]
    return nodes, extra


_SLOTTED_NM = []


def slotted_nm_class():
    from anytree import NodeMixin

    if not _SLOTTED_NM:
        class SlottedNM(NodeMixin):
            __slots__ = ("tagslot", "other")

            def __init__(self, name, tagslot=None, other=None, **kw):
                self.name = name
                self.tagslot = tagslot
                self.other = other
                self.__dict__.update(kw)

            def __repr__(self):
                return "SlottedNM(%s)" % (self.name,)

        SlottedNM.__module__ = __name__
        SlottedNM.__qualname__ = "SlottedNM"
        globals()["SlottedNM"] = SlottedNM  # picklable by reference
        _SLOTTED_NM.append(SlottedNM)
    return _SLOTTED_NM[0]


def use_tree(nodes):
    """The tree has a past as a *used* tree: every read-only API has been called on it (results are discarded here)."""
    from .. import battery as B

    B.battery(nodes, level=1 if len(nodes) <= 6 else 0, exporters=len(nodes) <= 6)


def attrs_of(node):
    out = {}
    d = getattr(node, "__dict__", None)
    if d is not None:
        for k, v in d.items():
            if "Mixin__" in k:
                continue
            out[k] = v
    for cls in type(node).__mro__:
        for s in getattr(cls, "__slots__", ()) or ():
            if s.startswith("__") or "Mixin__" in s:
                continue
            try:
                out[s] = object.__getattribute__(node, s)
            except AttributeError:
                pass
    return out


def is_treenode(x):
    from .. import forest as F

    return isinstance(x, (F.NodeMixin, F.LightNodeMixin))


def pair_trees(o, c):
    """Parallel walk; returns (bij: id(orig)->copy, origs list, problem or None)."""
    bij = {}
    rev = {}
    origs = []
    stack = [(o, c, "entry")]
    while stack:
        a, b, how = stack.pop()
        if (a is None) != (b is None):
            return bij, origs, "%s: None vs node" % how
        if a is None:
            continue
        if id(a) in bij:
            if bij[id(a)] is not b:
                return bij, origs, "%s: original node mapped to two copies" % how
            continue
        if id(b) in rev:
            return bij, origs, "%s: two original nodes share one copy" % how
        bij[id(a)] = b
        rev[id(b)] = a
        origs.append(a)
        if type(a) is not type(b):
            return bij, origs, "%s: class %s vs %s" % (how, type(a).__name__, type(b).__name__)
        ka, kb = a.children, b.children
        if len(ka) != len(kb):
            return bij, origs, "%s: %d vs %d children" % (how, len(ka), len(kb))
        stack.append((a.parent, b.parent, how + "/parent"))
        for i, (x, y) in enumerate(zip(ka, kb)):
            stack.append((x, y, "%s/child%d" % (how, i)))
        aa, ab = attrs_of(a), attrs_of(b)
        if sorted(aa) != sorted(ab):
            return bij, origs, "%s: attribute names %s vs %s" % (how, sorted(aa), sorted(ab))
        for k in aa:
            if is_treenode(aa[k]):
                if not is_treenode(ab[k]):
                    return bij, origs, "%s: attribute %s is not a node in the copy" % (how, k)
                stack.append((aa[k], ab[k], "%s.%s" % (how, k)))
            else:
                from .c10 import deep_eq

                if not deep_eq(aa[k], ab[k]):
                    return bij, origs, "%s: attribute %s %r vs %r" % (how, k, aa[k], ab[k])
                shared = _shared_mutable(aa[k], ab[k])
                if shared:
                    return bij, origs, "%s: attribute %s shares a mutable %s object with the original" % (how, k, shared)
    # second pass: child order / parent links through the bijection
    for a in origs:
        b = bij[id(a)]
        if [id(bij[id(x)]) for x in a.children] != [id(y) for y in b.children]:
            return bij, origs, "child order differs"
        pa = a.parent
        if (None if pa is None else id(bij[id(pa)])) != (None if b.parent is None else id(b.parent)):
            return bij, origs, "parent differs"
    return bij, origs, None


def _shared_mutable(a, b):
    """Type name of a mutable container that the copy's attribute value shares (by identity) with the original's."""
    stack = [(a, b)]
    while stack:
        x, y = stack.pop()
        if isinstance(x, (list, dict, set, bytearray)) and x is y:
            return type(x).__name__
        if isinstance(x, dict) and isinstance(y, dict):
            for k in x:
                if k in y:
                    stack.append((x[k], y[k]))
        elif isinstance(x, (list, tuple)) and isinstance(y, (list, tuple)) and len(x) == len(y):
            stack.extend(zip(x, y))
    return None


def snapshot_with_attrs(nodes):
    idmap = {id(o): i for i, o in enumerate(nodes)}
    out = []
    for n in nodes:
        at = {k: (("N", idmap.get(id(v))) if is_treenode(v) else repr(v)) for k, v in attrs_of(n).items()}
        out.append((idmap.get(id(n.parent), None if n.parent is None else "F"), [idmap.get(id(c), "F") for c in n.children], at))
    return out


def check_copy(ctx, how, entry_idx, nodes, extra, case, rng, mutate=True):
    from .. import forest as F

    allorig = nodes + extra
    n = nodes[entry_idx]
    cfg = dict(case, entry=entry_idx, how=how)
    before = snapshot_with_attrs(allorig)
    try:
        if how == "deepcopy":
            ctx.count("C19.deepcopy")
            r = copy.deepcopy(n)
        else:
            ctx.count("C19.pickle")
            r = pickle.loads(pickle.dumps(n, int(how)))
    except BaseException as e:  # noqa: B902
        ctx.violation("C19/%s/%s" % ("deepcopy" if how == "deepcopy" else "pickle", type(e).__name__), "copy", cfg, expected="a copy", observed=repr(e)[:300])
        return False
    ctx.count("mon.C19.bijection")
    if entry_idx and nodes[entry_idx].parent is not None:
        ctx.count("C19.entry_not_root")
    bij, origs, prob = pair_trees(n, r)
    kind = "deepcopy" if how == "deepcopy" else "pickle"
    if prob:
        ctx.violation("C19/%s/isomorphism" % kind, "bijection", cfg, expected="isomorphic copy", observed=prob[:300])
        return False
    if len(origs) < len(nodes):
        ctx.violation("C19/%s/incomplete" % kind, "bijection", cfg, expected="%d nodes" % len(nodes), observed="%d nodes paired" % len(origs))
        return False
    orig_ids = {id(a) for a in allorig}
    copies = [bij[id(a)] for a in origs]
    if any(id(c) in orig_ids for c in copies):
        ctx.violation("C19/%s/shared-node" % kind, "disjointness", cfg, expected="no shared node object", observed="copy contains an original node")
        return False
    if snapshot_with_attrs(allorig) != before:
        ctx.violation("C19/%s/original-changed" % kind, "original-unchanged", cfg, expected="original untouched by copying", observed="changed")
        return False
    # invariant on the copy
    rec = F.Rec(list(copies))
    probs = M.invariant(rec.snapshot())
    if probs:
        ctx.violation("C19/%s/invariant" % kind, "forest-invariant-on-copy", cfg, expected="invariant I", observed=probs[:5])
        return False
    if not mutate:
        return True
    # ---- independence: mutate the copy, watch the original; then the other way round
    ctx.count("mon.C19.independence")
    k = len(copies)
    order_orig = list(origs)
    rec_o = F.Rec(order_orig)
    for side, mut, watch in (("copy", rec, order_orig), ("orig", rec_o, copies)):
        wsnap = snapshot_with_attrs(watch)
        for _ in range(6):
            a, b = rng.randrange(k), rng.randrange(k)
            op = rng.random()
            try:
                if op < 0.5:
                    mut.nodes[a].parent = mut.nodes[b] if rng.random() < 0.8 else None
                elif op < 0.7:
                    del mut.nodes[a].children
                elif op < 0.85:
                    mut.nodes[a].children = [mut.nodes[b]]
                else:
                    x = mut.nodes[a]
                    if not isinstance(x, F.LightNodeMixin):
                        x.zz_new = ("mut", side)
                    else:
                        x.name = "renamed-" + side
            except F.TreeError:
                pass
        if snapshot_with_attrs(watch) != wsnap:
            ctx.violation("C19/%s/not-independent/%s-mutated" % (kind, side), "independence", cfg, expected="other side unchanged", observed="changed")
            return False
        probs = M.invariant(mut.snapshot())
        if probs:
            ctx.violation("C19/%s/invariant-after-mutating-%s" % (kind, side), "forest-invariant-on-copy", cfg, expected="invariant I after mutating the %s" % side, observed=probs[:4])
            return False
    return True


def check_tree(ctx, par, mix, case, entries, hows, seedtag):
    for e in entries:
        for how in hows:
            rng = ctx.rng("mut", seedtag, e, how)
            nodes, extra = build(par, mix, rng)
            if mix == "MIXSYM":
                ctx.count("C19.symlink_inside")
                ctx.count("C19.symlink_outside")
                if len(par) >= 4:
                    ctx.count("C19.link_to_link")
            if mix in ("LM", "VALLM", "LMSUB", "FALSYLM", "NMSLOTS"):
                ctx.count("C19.slots")
            if mix in ("FALSY", "FALSYNODE", "VALNM", "VALLM"):
                ctx.count("C19.special_method_classes")
            used = case.get("used", (len(par) + e + len(how)) % 2 == 1)
            if used:
                ctx.count("C19.tree_used_before_copy")
                use_tree(nodes)
            ctx.case((tuple(par), mix, e, how, used), sample=dict(case, entry=e, how=how, used=used) if ctx.evals % 3001 == 0 else None)
            case = dict(case, used=used)
            with ctx.guard(dict(case, entry=e, how=how)):
                if not check_copy(ctx, how, e, nodes, extra, case, rng):
                    return False
    return True


def hows_for(mix):
    if mix in ("LM", "VALLM", "LMSUB", "FALSYLM", "NMSLOTS"):
        return ["2", "3", "4", "5", "deepcopy"]
    return ["0", "1", "2", "3", "4", "5", "deepcopy"]


def run(ctx):
    T = ctx.tier == "thorough"
    nmax = 8 if T else 6
    idx = 0
    for n in range(1, nmax + 1):
        for par in gen.ordered_trees(n):
            idx += 1
            if not ctx.mine(idx):
                continue
            for mi, mix in enumerate(MIXES):
                if n >= 6 and (idx + mi) % 3:
                    continue
                hows = hows_for(mix)
                if n >= 5:
                    hows = [hows[(idx + mi) % len(hows)], "deepcopy", hows[-2]]
                check_tree(ctx, par, mix, {"par": list(par), "mix": mix}, range(n), hows, idx)
        ctx.exhaustive.append("all ordered trees with %d nodes x every entry node x class mixes x protocols + deepcopy%s" % (n, "" if n < 5 else " (rotating subset of protocols/mixes)"))
    nrand = (30000 if T else 320) // ctx.nshards + 1
    for r in range(nrand):
        rng = ctx.rng("rand", r)
        n = rng.randint(7, 40)
        kind = "chain" if r % 6 == 0 else None
        if kind == "chain":
            n = rng.randint(30, 100)
        par, kind = gen.random_tree(rng, n, kind)
        mix = MIXES[r % len(MIXES)]
        hows = hows_for(mix)
        check_tree(ctx, par, mix, {"par": list(par), "mix": mix, "kind": kind}, [0, rng.randrange(n), n - 1], [rng.choice(hows), "deepcopy"], "r%d" % r)
    histories(ctx)


def histories(ctx):
    """Copies taken from trees with a past: after mutation histories in which some calls were aborted by a raising
    hook (the copy must reproduce what the original's public attributes show at that moment)."""
    from .. import trees as TR

    T = ctx.tier == "thorough"
    nh = (20000 if T else 200) // ctx.nshards + 1
    for h in range(nh):
        rng = ctx.rng("hist", h)
        fam = ("Node", "NM", "LM", "VALNM", "FALSY", "MIX")[h % 6]
        k = rng.randint(3, 9)
        last = None
        for nodes, par, ch, case in TR.evolving_universe(ctx, rng, fam, k, rng.randint(3, 14), fault_rate=0.4):
            last = (nodes, par, ch, case)
            if rng.random() < 0.3:
                if not _copy_from_universe(ctx, rng, fam, *last):
                    last = None
                    break
        if last is not None:
            # only at the very end both sides are also mutated (that changes the universe itself)
            _copy_from_universe(ctx, rng, fam, *last, mutate=True)


def _copy_from_universe(ctx, rng, fam, nodes, par, ch, case, mutate=False):
    from .. import ref as RF

    k = len(nodes)
    e = rng.randrange(k)
    root = RF.path(par, e)[0]
    members = RF.preorder_iter(ch, root)
    tree_nodes = [nodes[x] for x in members]
    extra = [nodes[x] for x in range(k) if x not in set(members)]
    hows = ["2", "5", "deepcopy"] if fam == "LM" else ["0", "2", "5", "deepcopy"]
    how = rng.choice(hows)
    ctx.count("C19.after_faulted_history")
    ctx.case(("hist", fam, repr(case["history"])[:200], e, how))
    with ctx.guard(dict(case, entry=e, how=how)):
        return check_copy(ctx, how, members.index(e), tree_nodes, extra, dict(case, mix="history:" + fam), rng, mutate=mutate)
    return False


def replay(ctx, wit):
    if "history" in wit["case"]:
        import random
        from .. import trees as TR

        c = wit["case"]
        ctx.case(("replay",))
        fam = c["family"]
        for nodes, par, ch in TR.replay_universe(c):
            for e in range(len(nodes)):
                for how in (["2", "5", "deepcopy"] if fam == "LM" else ["0", "2", "5", "deepcopy"]):
                    _copy_from_universe(ctx, random.Random(e), fam, nodes, par, ch, c)
        return
    _replay_static(ctx, wit)


def _replay_static(ctx, wit):
    c = wit["case"]
    ctx.case(("replay",))
    base = {"par": c["par"], "mix": c["mix"]}
    if "used" in c:
        base["used"] = c["used"]
    check_tree(ctx, c["par"], c["mix"], base, [c["entry"]] if "entry" in c else range(len(c["par"])), [c["how"]] if "how" in c else hows_for(c["mix"]), "replay")
