"""C11 - JSON export and import round-trip every JSON-representable tree."""
import collections
import decimal
import io
import json
import os
import tempfile

from .. import gen
from .. import ref as R
from . import c10

LEVEL = "exploration"
TECHNIQUE = "exported text compared with json.dumps of the independently built reference dictionary under the same options; write()/read() vs export()/import_() agreement; rebuilt trees compared structurally (floats by repr, big ints exact)"
RULE = (
    "case = (tree, JSON-representable attribute dictionaries, json options, maxlevel, custom dictexporter/dictimporter); all ordered trees up to 5 nodes with "
    "seeded attributes x option sets, random trees <=25 nodes with hostile strings (control, non-ASCII, astral), nested lists/dicts, None/bool/int(>2^64)/float "
    "(-0.0, 1e308, 5e-324); distinct = hash of the configuration"
)
ASSUMPTIONS = ["no NaN/Infinity and no lone surrogates (not JSON-representable)", "attribute keys as in C10"]
GATES = ["mon.C11.export", "mon.C11.write", "mon.C11.import", "mon.C11.read", "C11.maxlevel_forwarded", "C11.custom_dictexporter", "C11.importer_kwargs", "C11.non_ascii", "C11.realfile", "C11.exporter_reused", "C11.handle_not_at_start", "C11.subclassed_dictexporter", "C11.tree_used_before_export", "C11.export_failed_then_reused", "C11.export_failed_below_start", "C11.write_only_handle", "C11.default_export_failed_before"]


def plan(tier, seed, jobs):
    n = max(2, min(16, jobs))
    return [{"assertions": i % 2, "shard": i, "nshards": n} for i in range(n)]


JSON_OPTS = [
    {},
    {"indent": None},
    {"indent": None, "sort_keys": False, "separators": None},
    {"indent": 2, "sort_keys": True},
    {"indent": 0},
    {"indent": "\t", "ensure_ascii": False},
    {"separators": (",", ":"), "ensure_ascii": True},
    {"sort_keys": True, "ensure_ascii": False, "separators": (", ", " : ")},
]


def call_export(exporter, node):
    try:
        return exporter.export(node)
    except Exception as e:  # noqa: B902
        return "raised %r" % (e,)


def check_one(ctx, lib, rng, par, attrs, kind, case):
    from anytree import AnyNode, Node
    from anytree.exporter import DictExporter, JsonExporter
    from anytree.importer import DictImporter, JsonImporter

    nodes, recorded = c10.build(lib, par, attrs, kind)
    if case.get("used", len(par) % 2 == 0) and len(par) <= 10:
        from .. import battery as B

        ctx.count("C11.tree_used_before_export")
        B.battery(nodes, level=0)
        case = dict(case, used=True)
    ch = gen.children_of(par)
    n = len(par)
    nodecls = {"AnyNode": AnyNode, "Node": Node}.get(kind) or type(nodes[0])
    if any(ord(c) > 127 for a in attrs for v in a.values() if isinstance(v, str) for c in v):
        ctx.count("C11.non_ascii")
    for oi, jopts in enumerate(JSON_OPTS):
        s = rng.choice([0, rng.randrange(n)])
        h = R.height(ch, s)
        for ml in (None, rng.choice([0, 1, 2, h, h + 1])):
            for mode in ("plain", "custom", "subclass"):
                cfg = dict(case, start=s, json_opts=repr(jopts), maxlevel=ml, mode=mode)
                ctx.case((tuple(par), kind, s, oi, ml, mode, case["attrs_repr"][:80]), sample=cfg if ctx.evals % 3001 == 0 else None)
                if mode == "plain":
                    exp_dict = c10.ref_export(recorded, ch, s, ml, None, None, dict)
                    kw = dict(jopts)
                    if ml is not None:
                        kw["maxlevel"] = ml
                        if ml <= h:
                            ctx.count("C11.maxlevel_forwarded")
                    exporter = JsonExporter(**kw)
                elif mode == "subclass":
                    # the supplied exporter is the application's own subclass: what *it* produces is serialised
                    ctx.count("C11.subclassed_dictexporter")

                    class StampingExporter(DictExporter):
                        def export(self, node):
                            data = super().export(node)
                            data["exported_by"] = "stamp"
                            return data

                    de = StampingExporter()
                    exp_dict = c10.ref_export(recorded, ch, s, ml, None, None, dict)
                    exp_dict["exported_by"] = "stamp"
                    kw = dict(jopts)
                    if ml is not None:
                        kw["maxlevel"] = ml
                    exporter = JsonExporter(dictexporter=de, **kw)
                else:
                    ctx.count("C11.custom_dictexporter")
                    de_ml = rng.choice([None, 1, 3])
                    de = DictExporter(dictcls=collections.OrderedDict, attriter=sorted, childiter=lambda c: list(reversed(c)), maxlevel=de_ml)
                    eff = ml if ml is not None else de_ml
                    exp_dict = c10.ref_export(recorded, ch, s, eff, lambda it: sorted(it), lambda ks: list(reversed(ks)), collections.OrderedDict)
                    kw = dict(jopts)
                    if ml is not None:
                        kw["maxlevel"] = ml
                    exporter = JsonExporter(dictexporter=de, **kw)
                ctx.count("mon.C11.export")
                exp_text = json.dumps(exp_dict, **jopts)
                try:
                    got = exporter.export(nodes[s])
                except BaseException as e:  # noqa: B902
                    ctx.violation("C11/export/%s" % type(e).__name__, "json-dumps-of-reference", cfg, expected=exp_text[:300], observed=repr(e)[:300])
                    return False
                if got != exp_text:
                    # the insertion order of a node's instance dict is not part of the statement: accept the text only if it is
                    # exactly json.dumps of what the (C10-checked) DictExporter produces and that equals the reference up to key order
                    real = (de if mode != "plain" else DictExporter(maxlevel=ml)).export(nodes[s])
                    if not (isinstance(got, str) and got == json.dumps(real, **jopts) and c10.deep_eq(c10._plain(real), c10._plain(exp_dict))):
                        ctx.violation("C11/export/text", "json-dumps-of-reference", cfg, expected=exp_text[:600], observed=str(got)[:600])
                        return False
                    exp_text = got
                ctx.count("mon.C11.write")
                buf = io.StringIO()
                exporter.write(nodes[s], buf)
                if buf.getvalue() != exp_text:
                    ctx.violation("C11/write/text", "write-equals-export", cfg, expected=exp_text[:600], observed=buf.getvalue()[:600])
                    return False
                # ---- import
                ctx.count("mon.C11.import")
                exp_plain = json.loads(exp_text)
                for imode in ("default", "nodecls", "kwargs"):
                    if imode == "default":
                        if kind == "Node":
                            continue
                        imp = JsonImporter()
                        cls = AnyNode
                        want = exp_plain
                    elif imode == "nodecls":
                        imp = JsonImporter(dictimporter=DictImporter(nodecls))
                        cls = nodecls
                        want = exp_plain
                    else:
                        ctx.count("C11.importer_kwargs")
                        imp = JsonImporter(dictimporter=DictImporter(nodecls), parse_float=decimal.Decimal, object_pairs_hook=collections.OrderedDict)
                        cls = nodecls
                        want = json.loads(exp_text, parse_float=decimal.Decimal, object_pairs_hook=collections.OrderedDict)
                    try:
                        root = imp.import_(got)
                    except BaseException as e:  # noqa: B902
                        ctx.violation("C11/import/%s" % type(e).__name__, "import", dict(cfg, imode=imode), expected="tree", observed=repr(e)[:300])
                        return False
                    r = c10.compare_tree(root, want, cls)
                    if r:
                        ctx.violation("C11/import/tree", "import", dict(cfg, imode=imode), expected=repr(want)[:500], observed=r[:500])
                        return False
                    ctx.count("mon.C11.read")
                    root2 = imp.read(io.StringIO(got))
                    r = c10.compare_tree(root2, want, cls)
                    if r:
                        ctx.violation("C11/read/tree", "read-equals-import", dict(cfg, imode=imode), expected=repr(want)[:500], observed=r[:500])
                        return False
                    if imode == "nodecls":
                        # the document is one part of a larger stream: the application wrote / consumed a header line on the same handle
                        ctx.count("C11.handle_not_at_start")
                        buf = io.StringIO()
                        buf.write("# header line\n")
                        exporter.write(nodes[s], buf)
                        if buf.getvalue() != "# header line\n" + exp_text:
                            ctx.violation("C11/write/after-header", "write-equals-export", cfg, expected=("# header line\n" + exp_text)[:600], observed=buf.getvalue()[:600])
                            return False
                        buf.seek(0)
                        buf.readline()
                        try:
                            root3 = imp.read(buf)
                        except BaseException as e:  # noqa: B902
                            ctx.violation("C11/read/after-header/%s" % type(e).__name__, "read-equals-import", dict(cfg, imode=imode), expected="tree", observed=repr(e)[:300])
                            return False
                        r = c10.compare_tree(root3, want, cls)
                        if r:
                            ctx.violation("C11/read/after-header", "read-equals-import", dict(cfg, imode=imode), expected=repr(want)[:500], observed=r[:500])
                            return False
        # a supplied DictExporter whose user hook fails once somewhere below the start node; the same objects are used again
        state = {"fail_at": rng.randrange(1, n) if n > 1 else None}

        def flaky(attrs_iter):
            items = list(attrs_iter)
            if state["fail_at"] is not None and ("__marker__", state["fail_at"]) in items:
                state["fail_at"] = None
                raise RuntimeError("attriter failed once")
            return [(k, v) for k, v in items if k != "__marker__"]

        if n > 1 and kind in ("AnyNode", "Node"):
            ctx.count("C11.export_failed_then_reused")
            for i, nd in enumerate(nodes):
                nd.__dict__["__marker__"] = i
            de2 = DictExporter(attriter=flaky)
            je2 = JsonExporter(dictexporter=de2, maxlevel=rng.choice([2, 3]), **jopts)
            try:
                je2.export(nodes[0])
            except RuntimeError:
                ctx.count("C11.export_failed_below_start")
            state["fail_at"] = None  # (the first export may not have reached that node at all)
            sx = rng.randrange(n)
            want = json.dumps(c10.ref_export(recorded, ch, sx, je2.maxlevel, None, None, dict), **jopts)
            gotx = call_export(je2, nodes[sx])
            for nd in nodes:
                del nd.__dict__["__marker__"]
            try:
                same = c10.deep_eq(c10._plain(json.loads(gotx)), c10._plain(json.loads(want)))
            except (ValueError, TypeError):
                same = False
            if not same:
                ctx.violation("C11/export/after-failed-export", "json-dumps-of-reference", dict(case, json_opts=repr(jopts), maxlevel=je2.maxlevel, start=sx), expected=want[:500], observed=str(gotx)[:500])
                return False
        # a handle that can only be written to (a pipe, a socket wrapper, a logging sink)
        class Sink:
            def __init__(self):
                self.parts = []

            def write(self, text):
                self.parts.append(text)
                return len(text)

        ctx.count("C11.write_only_handle")
        sink = Sink()
        je3 = JsonExporter(**jopts)
        want3 = json.dumps(c10.ref_export(recorded, ch, 0, None, None, None, dict), **jopts)
        try:
            je3.write(nodes[0], sink)
            got3 = "".join(sink.parts)
        except Exception as e:  # noqa: B902
            got3 = "raised %r" % (e,)
        if got3 != want3 and got3 != call_export(je3, nodes[0]):
            ctx.violation("C11/write/write-only-handle", "write-equals-export", dict(case, json_opts=repr(jopts)), expected=want3[:400], observed=got3[:400])
            return False
        # an export through the built-in default DictExporter failed earlier in this process (not a tree node at all)
        ctx.count("C11.default_export_failed_before")
        try:
            JsonExporter(maxlevel=1, **jopts).export(object())
        except Exception:  # noqa: B902
            pass
        gotd = call_export(JsonExporter(**jopts), nodes[0])
        try:
            same = c10.deep_eq(c10._plain(json.loads(gotd)), c10._plain(json.loads(want3)))
        except (ValueError, TypeError):
            same = False
        if not same:
            ctx.violation("C11/export/after-failed-default-export", "json-dumps-of-reference", dict(case, json_opts=repr(jopts)), expected=want3[:500], observed=str(gotd)[:500])
            return False
        # one exporter object re-used while its public attributes are reassigned
        ctx.count("C11.exporter_reused")
        je = JsonExporter(**jopts)
        for mlx in (rng.choice([1, 2]), None, rng.choice([0, 3]), None):
            je.maxlevel = mlx
            sx = rng.randrange(n)
            want = json.dumps(c10.ref_export(recorded, ch, sx, mlx, None, None, dict), **jopts)
            gotx = je.export(nodes[sx])
            if gotx != want:
                try:
                    same = c10.deep_eq(c10._plain(json.loads(gotx)), c10._plain(json.loads(want)))
                except ValueError:
                    same = False
                if not same:
                    ctx.violation("C11/export/reused-exporter", "json-dumps-of-reference", dict(case, json_opts=repr(jopts), maxlevel=mlx, start=sx), expected=want[:500], observed=str(gotx)[:500])
                    return False
        # a real UTF-8 file once per option set
        ctx.count("C11.realfile")
        fd, path = tempfile.mkstemp(prefix="c11-", suffix=".json", dir=os.getcwd())
        os.close(fd)
        try:
            exporter = JsonExporter(**jopts)
            with open(path, "w", encoding="utf-8") as fh:
                exporter.write(nodes[0], fh)
            with open(path, encoding="utf-8") as fh:
                text = fh.read()
            ref0 = c10.ref_export(recorded, ch, 0, None, None, None, dict)
            exp_text = json.dumps(ref0, **jopts)
            if text != exp_text and text == exporter.export(nodes[0]):
                try:
                    same = c10.deep_eq(c10._plain(json.loads(text)), c10._plain(json.loads(exp_text)))
                except ValueError:
                    same = False
                if same:
                    exp_text = text  # same content, only the (unspecified) key order of plain dicts differs
            if text != exp_text:
                ctx.violation("C11/write/file", "write-equals-export", dict(case, json_opts=repr(jopts)), expected=exp_text[:400], observed=text[:400])
                return False
            with open(path, encoding="utf-8") as fh:
                root = JsonImporter(dictimporter=DictImporter(nodecls)).read(fh)
            r = c10.compare_tree(root, json.loads(exp_text), nodecls)
            if r:
                ctx.violation("C11/read/file", "read-equals-import", dict(case, json_opts=repr(jopts)), expected=exp_text[:400], observed=r[:400])
                return False
        finally:
            os.unlink(path)
    return True


def run(ctx):
    from ..common import lib as getlib

    lib = getlib()
    T = ctx.tier == "thorough"
    kinds = ("AnyNode", "Node", "User", "Falsy", "Light")
    idx = 0
    for n in range(1, (6 if T else 5) + 1):
        for par in gen.ordered_trees(n):
            idx += 1
            if not ctx.mine(idx):
                continue
            rng = ctx.rng("attrs", idx)
            kind = kinds[idx % len(kinds)]
            attrs = c10.small_attrs(rng, n, json_only=True)
            check_one(ctx, lib, rng, par, attrs, kind, {"par": list(par), "kind": kind, "attrs_repr": repr(attrs)})
    nrand = (40000 if T else 400) // ctx.nshards + 1
    for r in range(nrand):
        rng = ctx.rng("rand", r)
        n = rng.randint(1, 25)
        par, _ = gen.random_tree(rng, n)
        kind = kinds[r % len(kinds)]
        attrs = [gen.random_attrs(rng, json_only=True, maxkeys=6) for _ in range(n)]
        check_one(ctx, lib, rng, par, attrs, kind, {"par": list(par), "kind": kind, "attrs_repr": repr(attrs)})


def replay(ctx, wit):
    from ..common import lib as getlib
    import random

    lib = getlib()
    c = wit["case"]
    ctx.case(("replay",))
    attrs = eval(c["attrs_repr"], {})  # our own generated JSON literals
    for k in range(8):
        if not check_one(ctx, lib, random.Random(k), c["par"], attrs, c["kind"], {"par": c["par"], "kind": c["kind"], "attrs_repr": c["attrs_repr"]}):
            break
