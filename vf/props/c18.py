"""C18 - LightNodeMixin behaves identically to NodeMixin (lock-step differential)."""
from . import forest_engine as E

LEVEL = "exploration"
TECHNIQUE = "differential lock-step execution of the same call histories on a NodeMixin and a LightNodeMixin universe; outcome, state, hook log, in-hook snapshots and all read-only queries compared"
RULE = (
    "case = (assertion mode, forest state, call, fault plan) executed on both mixins; same enumeration as C01 restricted to tree-node "
    "arguments; after histories every navigation attribute, iterator, Walker, Resolver and RenderTree result is compared; distinct = hash of the case tuple"
)
ASSUMPTIONS = ["only tree-node arguments (the statement excludes non-nodes)", "RecursionError cases are compared on class and final state only"]
GATES = ["mon.C18.lockstep", "mon.C18.queries", "outcome.returned", "outcome.LoopError", "outcome.TreeError", "outcome.Injected", "histories", "C18.rehoming_group_hook"]


def plan(tier, seed, jobs):
    return E.plan_shards(tier, seed, jobs)


def run(ctx):
    eng = E.Engine(ctx, (), faults=True, lockstep=True)
    eng.run()
    from . import lockstep_queries

    lockstep_queries.run(ctx)


def replay(ctx, wit):
    if wit.get("monitor") == "lockstep-queries":
        from . import lockstep_queries

        return lockstep_queries.replay(ctx, wit)
    E.replay(ctx, wit, (), lockstep=True)
