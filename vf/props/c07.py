"""C07 - Resolver.get returns the node a path denotes and fails cleanly when none exists."""
import itertools

from .. import gen
from .. import ref as R
from .. import refresolve as RR

LEVEL = "exploration"
TECHNIQUE = "returned node identity / exact exception class of Resolver.get compared with a reference path interpreter; absolute and Walker-spelled relative round trips over all node pairs; all option combinations"
RULE = (
    "case = (node class/separator/pathattr, named tree, start, path, ignorecase, relax); exhaustive: all paths of <=3 components over "
    "{a,b,A,zz,..,.,''} relative and absolute on all trees <=4 nodes; random: named trees <=12 nodes with hostile names x drawn paths, and all-pairs "
    "round trips; distinct = hash of the query; trivial = empty path"
)
ASSUMPTIONS = [
    "names never contain the class separator and are never '', '.', '..'",
    "case-insensitive cases use only characters on which str.upper, str.lower, str.casefold and re.IGNORECASE agree",
]
GATES = ["C07.wide_node", "mon.C07.get", "mon.C07.roundtrip_abs", "mon.C07.roundtrip_rel", "C07.err.ResolverError", "C07.err.RootResolverError", "C07.err.ChildResolverError",
         "C07.relaxed_miss_first", "C07.relaxed_miss_middle", "C07.relaxed_miss_last", "C07.ignorecase_hit", "C07.sep_other", "C07.wildcard_chars_in_names", "C07.after_mutation", "C07.option_attributes_reassigned", "C07.tree_with_symlinks", "C07.tuple_valued_pathattr", "C07.falsy_nodes", "C07.int_valued_pathattr", "C07.node_without_path_attribute"]

_CLS = {}
KINDS = ("Node", "AnyNode", "NM", "LM", "FalsyNode", "FalsyAny", "ListNode")


def node_class(kind, sep):
    from .. import forest as F

    key = (kind, sep)
    if key not in _CLS:
        base = {"Node": F.Node, "AnyNode": F.AnyNode, "NM": F.NM, "LM": F.LM, "FalsyNode": F.FalsyNode, "FalsyAny": F.FalsyAny, "ListNode": F.ListNM}[kind]
        body = {"separator": sep}
        if kind == "LM":
            body["__slots__"] = ()
        _CLS[key] = type("%s_sep" % kind, (base,), body)
    return _CLS[key]


class Absent:
    """Marks a node that does not have the path attribute at all; its string form is a component no query contains."""

    def __init__(self, i):
        self.i = i

    def __str__(self):
        return "\x00no-path-attribute-%d\x00" % self.i

    __repr__ = __str__


def build(par, names, kind="Node", sep="/", pathattr="name"):
    cls = node_class(kind, sep)
    nodes = []
    for i in range(len(par)):
        if kind in ("AnyNode", "FalsyAny"):
            nodes.append(cls() if isinstance(names[i], Absent) else cls(**{pathattr: names[i]}))
        else:
            nodes.append(cls(names[i]))
    for i, p in enumerate(par):
        if p is not None:
            nodes[i].parent = nodes[p]
    return nodes


def plan(tier, seed, jobs):
    n = max(2, min(16, jobs))
    return [{"assertions": i % 2, "shard": i, "nshards": n} for i in range(n)]


def observe(f, *a):
    try:
        r = f(*a)
    except BaseException as e:  # noqa: B902
        return ("exc", type(e).__name__, type(e))
    return ("ret", r)


def check_get(ctx, lib, nodes, idmap, par, ch, names, start, path, sep, ic, relax, case, pathattr="name", resolver=None):
    ctx.count("mon.C07.get")
    snames = [str(x) for x in names]
    exp = RR.ref_get(par, ch, snames, start, path, sep, ic)
    r = resolver if resolver is not None else lib.Resolver(pathattr, ignorecase=ic, relax=relax)
    if resolver is not None and (r.ignorecase, r.relax) != (ic, relax):
        # one long-lived object whose public option attributes are reassigned before use
        r.ignorecase, r.relax = ic, relax
        ctx.count("C07.option_attributes_reassigned")
    obs = observe(r.get, nodes[start], path)
    cfg = dict(case, start=start, path=path, ignorecase=ic, relax=relax)
    if exp[0] == "node":
        if ic and obs[0] == "ret" and RR.ref_get(par, ch, snames, start, path, sep, False) != exp:
            ctx.count("C07.ignorecase_hit")
        if obs[0] != "ret" or obs[1] is not nodes[exp[1]]:
            ctx.violation("C07/get/wrong-node", "reference-interpreter", cfg, expected=("node", exp[1]),
                          observed=("exc", obs[1]) if obs[0] == "exc" else ("ret", idmap.get(id(obs[1]), repr(obs[1])[:60])))
            return False
        return True
    ctx.count("C07.err." + exp[1])
    if relax:
        # position of the miss among the components, for the gates
        if exp[1] == "ChildResolverError":
            parts = [p for p in path.split(sep)]
            # find first failing component index by re-running prefixes
            for cut in range(1, len(parts) + 1):
                if RR.ref_get(par, ch, snames, start, sep.join(parts[:cut]), sep, ic)[0] == "err":
                    pos = "first" if cut == 1 else ("last" if cut == len(parts) else "middle")
                    if cut == 1 and len(parts) > 1:
                        ctx.count("C07.relaxed_miss_first")
                    elif cut == len(parts):
                        ctx.count("C07.relaxed_miss_last")
                    else:
                        ctx.count("C07.relaxed_miss_middle")
                    break
        if obs[0] != "ret" or obs[1] is not None:
            ctx.violation("C07/get/relaxed-%s" % (obs[1] if obs[0] == "exc" else "not-none"), "relaxed-never-raises", cfg, expected=None,
                          observed=("exc", obs[1]) if obs[0] == "exc" else ("ret", idmap.get(id(obs[1]), "?")))
            return False
        return True
    want = {"ResolverError": lib.ResolverError, "RootResolverError": lib.RootResolverError, "ChildResolverError": lib.ChildResolverError}[exp[1]]
    if obs[0] != "exc" or obs[2] is not want:
        ctx.violation("C07/get/error-class/%s" % exp[1], "error-class", cfg, expected=exp[1],
                      observed=("exc", obs[1]) if obs[0] == "exc" else ("ret", idmap.get(id(obs[1]), None)))
        return False
    return True


def roundtrips(ctx, lib, nodes, idmap, par, ch, names, sep, ic, case, pathattr="name", pairs=None):
    snames = [str(x) for x in names]
    n = len(nodes)
    w = lib.Walker()
    ok = True
    for relax in (False, True):
        r = lib.Resolver(pathattr, ignorecase=ic, relax=relax)
        for m_, t in pairs if pairs is not None else itertools.product(range(n), repeat=2):
            if RR.root_of(par, m_) != RR.root_of(par, t):
                continue
            ap = RR.abs_path(par, snames, t, sep)
            if ic:
                ap = ap.swapcase()
            ctx.count("mon.C07.roundtrip_abs")
            o = observe(r.get, nodes[m_], ap)
            if o[0] != "ret" or o[1] is not nodes[t]:
                ctx.violation("C07/roundtrip/abs", "roundtrip", dict(case, start=m_, target=t, path=ap, ignorecase=ic, relax=relax), expected=t,
                              observed=("exc", o[1]) if o[0] == "exc" else idmap.get(id(o[1]), None))
                return False
            # relative path spelled from the real Walker and from the model
            up, common, down = w.walk(nodes[m_], nodes[t])
            rel_real = sep.join([".."] * len(up) + [str(getattr(x, pathattr)) for x in down])
            mu, _, md = R.walk(par, m_, t)
            rel_model = sep.join([".."] * len(mu) + [snames[x] for x in md])
            for rel in (rel_real, rel_model):
                ctx.count("mon.C07.roundtrip_rel")
                rp = rel.swapcase() if ic else rel
                o = observe(r.get, nodes[m_], rp)
                if o[0] != "ret" or o[1] is not nodes[t]:
                    ctx.violation("C07/roundtrip/rel", "roundtrip", dict(case, start=m_, target=t, path=rp, ignorecase=ic, relax=relax), expected=t,
                                  observed=("exc", o[1]) if o[0] == "exc" else idmap.get(id(o[1]), None))
                    return False
    return ok


def run(ctx):
    from ..common import lib as getlib

    lib = getlib()
    T = ctx.tier == "thorough"
    idx = 0
    # ---- exhaustive small scope
    alphabet = ["a", "b", "A", "zz", "..", ".", ""]
    paths = []
    for ln in (1, 2, 3):
        for comps in itertools.product(alphabet, repeat=ln):
            paths.append("/".join(comps))
            paths.append("/" + "/".join(comps))
    paths = sorted(set(paths)) + ["/", "//", "///"]
    for n in (1, 2, 3, 4):
        for par in gen.ordered_trees(n):
            ch = gen.children_of(par)
            # name assignments over {a, b, B}: first/last-match and case variants
            assigns = set()
            rng = ctx.rng("names", n, par)
            for _ in range(6):
                assigns.add(tuple(rng.choice(["a", "b", "B", "A"]) for _ in range(n)))
            for names in sorted(assigns):
                idx += 1
                if not ctx.mine(idx):
                    continue
                kind = KINDS[idx % len(KINDS)]
                nodes = build(par, list(names), kind)
                idmap = {id(o): i for i, o in enumerate(nodes)}
                case = {"kind": kind, "sep": "/", "par": list(par), "names": list(names)}
                for s in range(n):
                    for p in paths:
                        for ic in (False, True):
                            for relax in (False, True):
                                ctx.case((par, names, s, p, ic, relax), nontrivial=p != "", sample=dict(case, start=s, path=p, ignorecase=ic, relax=relax) if ctx.evals % 40009 == 0 else None)
                                check_get(ctx, lib, nodes, idmap, par, ch, names, s, p, "/", ic, relax, case)
    ctx.exhaustive.append("all %d paths of <=3 components over {a,b,A,zz,..,.,''} (relative and absolute) x every start x all trees <=4 nodes x 6 name assignments x ignorecase x relax" % len(paths))
    # ---- random named trees
    nrand = (200000 if T else 2400) // ctx.nshards + 1
    seps = ["/", "|", "::", "\\", "->", "#", "/"]
    for r in range(nrand):
        rng = ctx.rng("rand", r)
        n = rng.randint(1, 12)
        wide = r % 35 == 10 or r % 37 == 6  # nodes with more children than any index / fast-path threshold
        if wide:
            n = rng.choice((20, 30, 45))
            ctx.count("C07.wide_node")
        par, _ = gen.random_tree(rng, n, rng.choice(("star", "broom", "star")) if wide else None)
        ch = gen.children_of(par)
        sep = seps[r % len(seps)]
        if sep != "/":
            ctx.count("C07.sep_other")
        ic = bool(r % 2)
        kind = KINDS[(r // 2) % len(KINDS)]
        if kind.startswith("Falsy"):
            ctx.count("C07.falsy_nodes")
        pathattr = "name"
        wild = r % 3 == 1
        names = gen.unique_sibling_names(rng, ch, sep=sep, hostile=True, ignorecase=ic, wild=wild)
        if wild and any("*" in x or "?" in x for x in names):
            ctx.count("C07.wildcard_chars_in_names")
        if kind in ("AnyNode", "FalsyAny") and (r // 12) % 2 == 0:
            pathattr = "id"
            if (r // 24) % 2 == 0:
                # int-valued path attribute, compared as str(value); 0 is a falsy value whose string form is a perfectly good component
                # (the falsy values go to the last nodes, which are never the root)
                names = (list(range(2, n)) + [0.0, 0][-min(n, 2):] if n > 1 else [0]) if (r // 48) % 2 == 0 else list(range(100, 100 + n))
                ctx.count("C07.int_valued_pathattr")
        if r % 11 == 5 and kind in ("Node", "AnyNode") and sep not in "(),' ":
            # non-string path attributes (tuples): compared as str(value); they also appear in error messages
            names = [("t%d" % i,) if i % 2 else ("t", i) for i in range(n)]
            ctx.count("C07.tuple_valued_pathattr")
        absent = []
        if pathattr == "id" and n >= 3 and (r // 12) % 4 == 2:
            # a grouping node without the path attribute (a leaf, never the root): it is never matched, and lookups
            # that fail next to it still fail cleanly
            leaves = [i for i in range(1, n) if not ch[i]]
            absent = leaves[-1:]
            names = list(names)
            for i in absent:
                names[i] = Absent(i)
            ctx.count("C07.node_without_path_attribute")
        nodes = build(par, names, kind, sep, pathattr)
        idmap = {id(o): i for i, o in enumerate(nodes)}
        snames = [str(x) for x in names]
        case = {"kind": kind, "sep": sep, "par": list(par), "names": [None if isinstance(x, Absent) else x for x in names], "pathattr": pathattr, "absent": absent}
        pairs = None if not absent else [(a, b) for a in range(n) for b in range(n) if b not in absent]
        roundtrips(ctx, lib, nodes, idmap, par, ch, names, sep, ic, case, pathattr, pairs=pairs)
        qnames = [x for i, x in enumerate(snames) if i not in absent]  # no query spells the marker of an attribute-less node
        present = [i for i in range(n) if i not in absent]
        comps_pool = qnames + [x.swapcase() for x in qnames] + ["..", "..", ".", "", "nope", "zz", "50%", "%s", "%(x)s"]
        if r % 3 != 0:
            # wildcard characters are ordinary characters for get
            comps_pool += ["*", "?", "a*", "s*"] + [x[:-1] + "?" for x in qnames[:4]] + [x[:1] + "*" for x in qnames[:4]]
        for q in range(30):
            ln = rng.randint(0, 5)
            comps = [rng.choice(comps_pool) for _ in range(ln)]
            p = sep.join(comps)
            form = rng.random()
            if form < 0.25:
                p = RR.abs_path(par, snames, rng.choice(present), sep) + (sep + p if p else "")
            elif form < 0.35:
                p = sep + p
            elif form < 0.4:
                p = p + sep
            s = rng.randrange(n)
            for relax in (False, True):
                ctx.case((r, s, p, ic, relax), nontrivial=p != "", sample=dict(case, start=s, path=p, ignorecase=ic, relax=relax) if (r * 30 + q) % 4001 == 0 else None)
                check_get(ctx, lib, nodes, idmap, par, ch, names, s, p, sep, ic, relax, case, pathattr)
    symlink_trees(ctx, lib)
    histories(ctx, lib)


def symlink_trees(ctx, lib):
    """Trees that contain symlink nodes (their path attribute is forwarded from the target), resolved through a
    public and through an underscore-prefixed path attribute."""
    from anytree import Node, SymlinkNode

    T = ctx.tier == "thorough"
    for r in range((2000 if T else 64) // ctx.nshards + 1):
        rng = ctx.rng("symlink", r)
        n = rng.randint(2, 9)
        par, _ = gen.random_tree(rng, n)
        ch = gen.children_of(par)
        names = gen.unique_sibling_names(rng, ch, sep="/", hostile=False, ignorecase=False)
        nodes = []
        for i in range(n):
            if i and i % 3 == 2:
                nodes.append(SymlinkNode(Node(names[i], _key=names[i], key=names[i])))
            else:
                nodes.append(Node(names[i], _key=names[i], key=names[i]))
        for i, p in enumerate(par):
            if p is not None:
                nodes[i].parent = nodes[p]
        idmap = {id(o): i for i, o in enumerate(nodes)}
        ctx.count("C07.tree_with_symlinks")
        for pathattr in ("name", "_key", "key"):
            case = {"kind": "symlink-mix", "sep": "/", "par": list(par), "names": names, "pathattr": pathattr}
            ctx.case(("symlink", r, pathattr))
            if not roundtrips(ctx, lib, nodes, idmap, par, ch, names, "/", False, case, pathattr):
                return
            for q in range(8):
                s_ = rng.randrange(n)
                p_ = "/".join(rng.choice(names + ["..", ".", "zz"]) for _ in range(rng.randint(1, 3)))
                for relax in (False, True):
                    if not check_get(ctx, lib, nodes, idmap, par, ch, names, s_, p_, "/", False, relax, case, pathattr):
                        return


def histories(ctx, lib):
    """Long-lived Resolver objects are reused while the tree is renamed and restructured between queries."""
    from .. import trees as TR

    T = ctx.tier == "thorough"
    nh = (30000 if T else 240) // ctx.nshards + 1
    pool = ["a", "b", "A", "B", "n1", "ab", "x*", "a?", "c"]
    for h in range(nh):
        rng = ctx.rng("hist", h)
        k = rng.randint(3, 8)
        res = {(ic, relax): lib.Resolver("name", ignorecase=ic, relax=relax) for ic in (False, True) for relax in (False, True)}
        if h % 3 == 0:
            one = lib.Resolver("name")
            res = {key: one for key in res}
        names = None
        renames = []
        hfam = ("Node", "LM", "NM", "Node")[h % 4]
        for nodes, par, ch, case in TR.evolving_universe(ctx, rng, hfam, k, rng.randint(4, 16), fault_rate=(0.3 if h % 2 else 0.0)):
            if names is None:
                names = [n.name for n in nodes]
            for _ in range(rng.randint(0, 2)):
                i = rng.randrange(k)
                new = rng.choice(pool)
                if rng.random() < 0.3:
                    j = rng.randrange(k)  # swap two names
                    names[i], names[j] = names[j], names[i]
                    nodes[i].name, nodes[j].name = names[i], names[j]
                    renames.append([len(case["history"]), "swap", i, j])
                else:
                    names[i] = new
                    nodes[i].name = new
                    renames.append([len(case["history"]), "set", i, new])
            ctx.count("C07.after_mutation")
            idmap = {id(o): i for i, o in enumerate(nodes)}
            c2 = dict(case, kind="hist", sep="/", names=list(names), renames=[list(x) for x in renames], single_resolver=(h % 3 == 0))
            for q in range(10):
                s = rng.randrange(k)
                t = rng.randrange(k)
                form = rng.random()
                if form < 0.4:
                    p = RR.abs_path(par, names, t, "/")
                elif form < 0.7:
                    p = "/".join(rng.choice(names + ["..", "..", ".", "zz"]) for _ in range(rng.randint(1, 4)))
                else:
                    p = "/".join([".."] * rng.randint(0, 2) + [names[t]])
                if rng.random() < 0.3:
                    p = p.swapcase()
                for ic in (False, True):
                    for relax in (False, True):
                        ctx.case(("hist", h, len(case["history"]), q, ic, relax), nontrivial=True)
                        if not check_get(ctx, lib, nodes, idmap, par, ch, names, s, p, "/", ic, relax, c2, resolver=res[(ic, relax)]):
                            return


def replay(ctx, wit):
    if "history" in wit["case"]:
        return replay_history(ctx, wit)
    _replay_static(ctx, wit)


def replay_history(ctx, wit):
    """Re-runs the structural history with the recorded renames and asks the witness query (and the
    absolute path of every node) after every step through long-lived resolvers."""
    from .. import trees as TR
    from ..common import lib as getlib

    lib = getlib()
    c = wit["case"]
    ctx.case(("replay",))
    res = {(ic, relax): lib.Resolver("name", ignorecase=ic, relax=relax) for ic in (False, True) for relax in (False, True)}
    if c.get("single_resolver"):
        one = lib.Resolver("name")
        res = {key: one for key in res}
    names = None
    for step, (nodes, par, ch) in enumerate(TR.replay_universe(c)):
        if names is None:
            names = [n.name for n in nodes]
        for st, what, i, x in c.get("renames", []):
            if st == step:
                if what == "swap":
                    names[i], names[x] = names[x], names[i]
                    nodes[i].name, nodes[x].name = names[i], names[x]
                else:
                    names[i] = x
                    nodes[i].name = x
        idmap = {id(o): i for i, o in enumerate(nodes)}
        paths = [c["path"]] if "path" in c else []
        paths += [RR.abs_path(par, names, t, "/") for t in range(len(nodes))]
        for p in paths:
            for s in range(len(nodes)):
                for key, r in res.items():
                    check_get(ctx, lib, nodes, idmap, par, ch, names, s, p, "/", key[0], key[1], c, resolver=r)


def _replay_static(ctx, wit):
    from ..common import lib as getlib

    lib = getlib()
    c = wit["case"]
    par, names = c["par"], list(c["names"])
    for i in c.get("absent", []):
        names[i] = Absent(i)
    nodes = build(par, names, c["kind"], c["sep"], c.get("pathattr", "name"))
    idmap = {id(o): i for i, o in enumerate(nodes)}
    ch = gen.children_of(par)
    ctx.case(("replay",))
    if "target" in c:
        roundtrips(ctx, lib, nodes, idmap, par, ch, names, c["sep"], c["ignorecase"], c, c.get("pathattr", "name"), pairs=[(c["start"], c["target"])])
    else:
        check_get(ctx, lib, nodes, idmap, par, ch, names, c["start"], c["path"], c["sep"], c["ignorecase"], c["relax"], c, c.get("pathattr", "name"))
