"""Directed workload shared by C01, C02, C03 and C16: children assignment / deletion on a node with more children than
any threshold a "bulk" fast path, an index or a small-integer identity slip could plausibly pick.  Nothing in the four
statements depends on the number of children: a list of 300 distinct nodes is a legal children list, the per-child hook
calls arrive in child order, and a veto by the *first* child's _pre_detach leaves everything in place (a veto by a later
child is the known finding del-partial and is not driven here)."""

WIDTHS = (40, 300)


class Veto(Exception):
    pass


def _classes():
    from anytree import LightNodeMixin, NodeMixin

    log = []
    veto = set()

    class H:
        __slots__ = ()

        def _pre_detach(self, parent):
            log.append(("pre_detach", self.k, parent.k))
            if self.k in veto:
                raise Veto(self.k)

        def _post_detach(self, parent):
            log.append(("post_detach", self.k, parent.k))

        def _pre_attach(self, parent):
            log.append(("pre_attach", self.k, parent.k))

        def _post_attach(self, parent):
            log.append(("post_attach", self.k, parent.k))

        def _pre_detach_children(self, children):
            log.append(("pre_detach_children", self.k, tuple(c.k for c in children)))

        def _post_detach_children(self, children):
            log.append(("post_detach_children", self.k, tuple(c.k for c in children)))

        def _pre_attach_children(self, children):
            log.append(("pre_attach_children", self.k, tuple(c.k for c in children)))

        def _post_attach_children(self, children):
            log.append(("post_attach_children", self.k, tuple(c.k for c in children)))

    class WNM(H, NodeMixin):
        def __init__(self, k):
            self.k = k

    class WLM(H, LightNodeMixin):
        __slots__ = ("k",)

        def __init__(self, k):
            self.k = k

    return log, veto, (("NM", WNM), ("LM", WLM))


def _snap(nodes):
    return [(n.parent.k if n.parent is not None else None, tuple(c.k for c in n.children)) for n in nodes]


def _invariant(nodes):
    for n in nodes:
        p = n.parent
        if p is not None and sum(1 for c in p.children if c is n) != 1:
            return "node %r is not exactly once among its parent's children" % (n.k,)
        for c in n.children:
            if c.parent is not n:
                return "a child of %r has another parent" % (n.k,)
    return None


def run(ctx, prop):
    if ctx.shard != 0:
        return
    log, veto, classes = _classes()
    for fam, cls in classes:
        for W in WIDTHS:
            P, Q = cls("P"), cls("Q")
            kids = [cls(i) for i in range(W)]
            nodes = [P, Q] + kids
            ks = tuple(range(W))
            per = lambda kind1, kind2, par, order: [(k2, i, par) for i in order for k2 in (kind1, kind2)]  # noqa: E731
            steps = [
                ("P.children = %d distinct roots" % W, lambda: setattr(P, "children", list(kids)), "ok",
                 [("pre_attach_children", "P", ks)] + per("pre_attach", "post_attach", "P", ks) + [("post_attach_children", "P", ks)],
                 lambda: tuple(c.k for c in P.children) == ks and all(c.parent is P for c in kids)),
                ("Q.children = the same %d nodes plus the first one again" % W, lambda: setattr(Q, "children", list(kids) + [kids[0]]), "TreeError", None, None),
                ("del P.children vetoed by the first child's _pre_detach", "veto-del", "Veto", None, None),
                ("P.children = [] vetoed by the first child's _pre_detach", "veto-set", "Veto", None, None),
                ("del P.children", lambda: delattr(P, "children"), "ok",
                 [("pre_detach_children", "P", ks)] + per("pre_detach", "post_detach", "P", ks) + [("post_detach_children", "P", ks)],
                 lambda: P.children == () and all(c.parent is None for c in kids)),
                ("Q.children = the nodes in reverse order", lambda: setattr(Q, "children", list(reversed(kids))), "ok",
                 [("pre_attach_children", "Q", ks[::-1])] + per("pre_attach", "post_attach", "Q", ks[::-1]) + [("post_attach_children", "Q", ks[::-1])],
                 lambda: tuple(c.k for c in Q.children) == ks[::-1]),
                ("P.children = every second child of Q", lambda: setattr(P, "children", kids[::2]), "ok",
                 [("pre_attach_children", "P", ks[::2])] + [e for i in ks[::2] for e in (("pre_detach", i, "Q"), ("post_detach", i, "Q"), ("pre_attach", i, "P"), ("post_attach", i, "P"))] + [("post_attach_children", "P", ks[::2])],
                 lambda: tuple(c.k for c in P.children) == ks[::2] and tuple(c.k for c in Q.children) == tuple(i for i in ks[::-1] if i % 2)),
            ]
            for what, op, want, events, effect in steps:
                case = {"directed": "node with %d %s children" % (W, fam), "step": what, "wide_node": True}
                ctx.case(("widenode", fam, W, what))
                ctx.count("mon.%s.wide_node" % prop)
                veto.clear()
                if op == "veto-del":
                    veto.add(0)
                    op = lambda: delattr(P, "children")  # noqa: E731
                elif op == "veto-set":
                    veto.add(0)
                    op = lambda: setattr(P, "children", [])  # noqa: E731
                del log[:]
                before = _snap(nodes)
                try:
                    op()
                    got = "ok"
                except BaseException as e:  # noqa: B902
                    got = type(e).__name__
                veto.clear()
                after = _snap(nodes)
                seen = [e for e in log if not (e[0].endswith("detach_children") and e[2] == ())]  # calls with no former children: neither demanded nor forbidden
                if prop == "C01":
                    prob = _invariant(nodes)
                    if prob:
                        ctx.violation("C01/wide-node/invariant", "forest-invariant", case, expected="invariant I", observed=prob)
                        return
                elif prop == "C02":
                    if got != want and "Veto" not in (got, want):
                        ctx.violation("C02/wide-node/outcome/%s-for-%s" % (got, want), "model-outcome", case, expected=want, observed=got)
                        return
                    if got == "ok" and effect is not None and not effect():
                        ctx.violation("C02/wide-node/effect", "model-effect", case, expected="the specified children lists", observed={"P": [c.k for c in P.children][:12], "Q": [c.k for c in Q.children][:12]})
                        return
                elif prop == "C03":
                    if got != "ok" and after != before:
                        ctx.violation("C03/wide-node/changed", "state-unchanged", case, expected="forest untouched by the raising call",
                                      observed={"outcome": got, "changed_nodes": sum(1 for a, b in zip(before, after) if a != b)})
                        return
                elif prop == "C16":
                    if got == "ok" and events is not None and seen != events:
                        d = next((i for i, (a, b) in enumerate(zip(seen, events)) if a != b), min(len(seen), len(events)))
                        ctx.violation("C16/wide-node/hook-sequence", "hook-sequence", case, expected={"length": len(events), "from_first_difference": [list(map(str, e[:2])) for e in events[d:d + 4]]},
                                      observed={"length": len(seen), "from_first_difference": [list(map(str, e[:2])) for e in seen[d:d + 4]]})
                        return
    if prop in ("C01", "C03"):
        mixed(ctx, prop, classes)


def mixed(ctx, prop, classes):
    """A root of one mixin offered to a node of the other mixin: the unchanged library refuses with AttributeError (the
    mixins keep their bookkeeping under different private names) before anything has changed; the refusal must leave both
    link directions as they were."""
    for (fa, ca), (fb, cb) in ((classes[0], classes[1]), (classes[1], classes[0])):
        host, hk = cb("host"), cb("hk")
        hk.parent = host
        n, c = ca("n"), ca("c")
        c.parent = n
        nodes = [host, hk, n, c]
        for what, op in (("n.parent = host", lambda: setattr(n, "parent", host)), ("host.children = [hk, n]", lambda: setattr(host, "children", [hk, n]))):
            case = {"directed": "%s root offered to a %s node" % (fa, fb), "step": what, "wide_node": True}
            ctx.case(("mixed", fa, fb, what))
            ctx.count("mon.%s.mixed_mixins" % prop)
            before = _snap(nodes)
            try:
                op()
                got = "ok"
            except BaseException as e:  # noqa: B902
                got = type(e).__name__
            after = _snap(nodes)
            if prop == "C01":
                prob = _invariant(nodes)
                if prob:
                    ctx.violation("C01/mixed-mixins/invariant", "forest-invariant", case, expected="invariant I", observed={"outcome": got, "problem": prob})
                    return
            elif got != "ok" and after != before:
                ctx.violation("C03/mixed-mixins/changed", "state-unchanged", case, expected="forest untouched by the raising call", observed={"outcome": got, "before": before, "after": after})
                return
