"""C18, query clause: after the same call history both mixins answer every
read-only query identically."""
from .. import gen
from .. import model as M


def one(ctx, ch0, hist, tag, dupnames=False, pair=("NM", "LM")):
    from .. import battery as B
    from .. import forest as F

    recs = [F.Rec(F.materialise(f, ch0)) for f in pair]
    ctx.count("C18.query_pair.%s" % pair[0])
    if dupnames:
        for r in recs:
            for i, n in enumerate(r.nodes):
                n.name = "d%d" % (i % 3)  # several nodes (also siblings) share a name
    case0 = {"state": [list(c) for c in ch0], "history": [[F._jsonable(c), F._jsonable(p)] for c, p in hist], "dupnames": dupnames, "pair": list(pair)}
    for step, (call, planspec) in enumerate(hist):
        # the navigation attributes are read on the same objects before every further call, so a memo
        # kept by one of the mixins goes stale where the other recomputes
        b0 = B.battery(recs[0].nodes, level=0)
        b1 = B.battery(recs[1].nodes, level=0)
        ctx.count("C18.query_values_compared", len(b0))
        d = B.diff(b0, b1)
        if d:
            ctx.violation("C18/queries/%s" % d[0][0].split(".", 1)[-1].split(".")[0], "lockstep-queries", dict(case0, at_step=step),
                          expected={"NM": F._jsonable(d[0][1:2])}, observed={"LM": F._jsonable(d[0][2:]), "query": d[0][0], "more": [x[0] for x in d[1:]]})
            return
        for r, f in zip(recs, pair):
            # every third step with hooks that read the forest and derived attributes of its nodes while the call is under way
            F.run_call(r, f, call, F.Plan(planspec), snaps_on=(step % 3 == 1))
    s0, s1 = recs[0].snapshot(), recs[1].snapshot()
    case = {"state": [list(c) for c in ch0], "history": [[F._jsonable(c), F._jsonable(p)] for c, p in hist], "dupnames": dupnames, "pair": list(pair)}
    ctx.case((tag, pair, ch0, tuple(hist)), sample=case if ctx.counters["mon.C18.queries"] % 97 == 0 else None)
    ctx.count("mon.C18.queries")
    if s0 != s1:
        ctx.violation("C18/queries/state", "lockstep-queries", case, expected=F._jsonable(s0), observed=F._jsonable(s1))
        return
    if M.invariant(s0):
        return
    bn = B.battery(recs[0].nodes, level=1, names=[str(n.name) for n in recs[0].nodes] if dupnames else None)
    bl = B.battery(recs[1].nodes, level=1, names=[str(n.name) for n in recs[1].nodes] if dupnames else None)
    ctx.count("C18.query_values_compared", len(bn))
    d = B.diff(bn, bl)
    if d:
        ctx.violation("C18/queries/%s" % d[0][0].split(".", 1)[-1].split(".")[0], "lockstep-queries", case,
                      expected={"NM": F._jsonable(d[0][1:2])}, observed={"LM": F._jsonable(d[0][2:]), "query": d[0][0], "more": [x[0] for x in d[1:]]})


def run(ctx):
    from .. import forest as F
    from .forest_engine import Engine

    T = ctx.tier == "thorough"
    eng = Engine(ctx, (), faults=True, lockstep=True)
    # all forests up to 4 nodes as they are
    idx = 0
    for k in (1, 2, 3, 4):
        for ch in gen.ordered_forests(k):
            idx += 1
            if ctx.mine(idx):
                for pair in F.LOCKSTEP_PAIRS.values():
                    one(ctx, ch, [], "static", pair=pair)
    ctx.exhaustive.append("query battery on all ordered forests over k<=4 nodes (NM vs LM, value-equality pair, always-falsy pair)")
    per = max(1, (2000 if T else 160) // ctx.nshards)
    for h in range(per):
        rng = ctx.rng("qhist", h)
        k = rng.randint(3, 9)
        ch0 = gen.random_forest(rng, k)
        hist = []
        # model-free: calls are chosen blindly, the universes evolve on their own
        par = gen.parents_of(ch0)
        for _ in range(rng.randint(0, 25)):
            call = eng.random_call(rng, k, par, "LM")
            planspec = ("none",) if rng.random() < 0.7 else ("once", rng.randrange(6))
            hist.append((call, planspec))
        one(ctx, ch0, hist, "hist", dupnames=(h % 3 == 0), pair=list(F.LOCKSTEP_PAIRS.values())[(h // 3) % 4 % 3])


def replay(ctx, wit):
    from .forest_engine import tup

    c = wit["case"]
    one(ctx, tup(c["state"]), [(tup(a), tup(b)) for a, b in c["history"]], "replay", dupnames=c.get("dupnames", False), pair=tuple(c.get("pair", ("NM", "LM"))))
