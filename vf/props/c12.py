"""C12 - DOT export declares exactly the admitted nodes and only edges between them."""
from .. import gen
from .. import ref as R
from . import graphexp as G

LEVEL = "exploration"
TECHNIQUE = "emitted DOT lines parsed back (independent unescaper) into declared identifiers, attributes and edges and compared with the admitted sub-forest of the reference model; exhaustive over stop sets x filter sets x maxlevel on small trees"
RULE = (
    "case = (exporter in {DotExporter, UniqueDotExporter, RenderTreeGraph}, tree, start, stop set, filtered-out set, maxlevel, custom-function set, names); all ordered "
    "trees up to n nodes x every start x maxlevel None,0..4 x all stop sets x 4 filter sets (quick n<=5 for DotExporter/UniqueDotExporter); random trees with "
    "hostile and colliding names, custom name/attribute/edge functions, options, indent; distinct = hash of the configuration; trivial = none"
)
ASSUMPTIONS = ["the order of edge statements among themselves is not part of the statement and is not checked",
               "known finding dot-edge-to-stopped-child is accepted only when the surplus edges are exactly the predicted ones"]
GATES = ["mon.C12.export", "C12.large_tree", "C12.edges_checked", "C12.maxlevel0", "C12.stop_and_filter", "C12.colliding_names", "C12.hostile_names", "C12.custom", "C12.to_dotfile", "C12.rendertreegraph", "C12.predicate_change", "C12.value_semantics_nodes", "C12.attribute_reassigned", "C12.tree_changed_between_iterations", "C12.aborted_iteration_then_reuse", "C12.custom_function_returns_none", "C12.falsy_nodes", "C12.other_exporter_numbered_subtree_before"]


def plan(tier, seed, jobs):
    n = max(2, min(16, jobs))
    return [{"assertions": i % 2, "shard": i, "nshards": n} for i in range(n)]


def run(ctx):
    import os
    from ..common import lib as getlib

    lib = getlib()
    known = set(ctx.spec.get("known") or [])
    T = ctx.tier == "thorough"
    nmax = 6 if T else 5
    idx = 0
    for n in range(1, nmax + 1):
        allsets = list(gen.subsets(n))
        fsets = G.filter_sets(n) if not T or n > 5 else allsets
        for par in gen.ordered_trees(n):
            ch = gen.children_of(par)
            names = ["n%d" % i for i in range(n)]
            nodes = None
            for s in range(n):
                for stop in allsets:
                    idx += 1
                    if not ctx.mine(idx):
                        continue
                    if nodes is None:
                        nodes = G.build(par, names)
                        idmap = {id(o): i for i, o in enumerate(nodes)}
                    case = {"par": list(par), "names": names}
                    for ml in (None, 0, 1, 2, 3, 4):
                        if ml == 0:
                            ctx.count("C12.maxlevel0")
                        for hidden in fsets:
                            if stop and hidden:
                                ctx.count("C12.stop_and_filter")
                            for kind in ("dot", "unique"):
                                ctx.case((kind, par, s, stop, hidden, ml), sample=dict(case, exporter=kind, start=s, stop=sorted(stop), hidden=sorted(hidden), maxlevel=ml) if ctx.evals % 40009 == 0 else None)
                                G.check_dot(ctx, "C12", kind, lib, nodes, idmap, names, par, ch, s, stop, hidden, ml, None, case, known)
        ctx.exhaustive.append("all ordered trees with %d nodes x every start x maxlevel None,0..4 x all %d stop sets x %d filter sets x {DotExporter, UniqueDotExporter}" % (n, len(allsets), len(fsets)))
    nrand = (150000 if T else 960) // ctx.nshards + 1
    for r in range(nrand):
        rng = ctx.rng("rand", r)
        n = rng.randint(1, 14)
        big = r % 61 == 3  # beyond size thresholds (id tables, caches, batching): more than 1024 admitted nodes
        if big:
            n = rng.choice((1030, 1100, 1300))
            ctx.count("C12.large_tree")
        par, _ = gen.random_tree(rng, n, rng.choice(("uniform", "binary", "star")) if big else None)
        ch = gen.children_of(par)
        collide = rng.random() < 0.4
        names = G.hostile_names(rng, n, collide)
        if len(set(names)) < n:
            ctx.count("C12.colliding_names")
        if any(c in str(x) for x in names for c in '"\\'):
            ctx.count("C12.hostile_names")
        valsem = rng.random() < 0.3
        if valsem:
            ctx.count("C12.value_semantics_nodes")
        elif rng.random() < 0.3:
            valsem = "falsy"
            ctx.count("C12.falsy_nodes")
        nodes = G.build(par, names, valsem)
        idmap = {id(o): i for i, o in enumerate(nodes)}
        case = {"par": list(par), "names": names, "value_semantics": valsem}
        for q in range(6):
            # fresh objects per query: the second iteration of a check may rename and move nodes
            nodes = G.build(par, names, valsem)
            idmap = {id(o): i for i, o in enumerate(nodes)}
            s = rng.choice([0, 0, rng.randrange(n)])
            stop = frozenset(x for x in range(n) if rng.random() < rng.choice([0, 0.15, 0.3]))
            hidden = frozenset(x for x in range(n) if rng.random() < rng.choice([0, 0.2, 0.5]))
            ml = rng.choice([None, None, 0, 1, 2, 3, 5])
            custom = rng.choice(G.CUSTOMS + [None])
            if custom:
                ctx.count("C12.custom")
            kind = rng.choice(("dot", "unique", "unique", "rtg"))
            if kind == "rtg":
                ctx.count("C12.rendertreegraph")
            ctx.case((kind, par, tuple(names), s, stop, hidden, ml, repr(custom)), sample=dict(case, exporter=kind, start=s, stop=sorted(stop), hidden=sorted(hidden), maxlevel=ml, custom=custom) if r % 150 == 0 and q == 0 else None)
            phase2 = None
            if q % 2:
                phase2 = G.random_phase2(rng, n, par, s)
            G.check_dot(ctx, "C12", kind, lib, nodes, idmap, names, par, ch, s, stop, hidden, ml, custom, case, known, phase2=phase2)
        # legacy class emits the same lines as DotExporter for the same arguments
        import warnings
        from anytree.exporter import DotExporter
        import anytree.dotexport

        nodes = G.build(par, names, valsem)
        with warnings.catch_warnings():
            warnings.simplefilter("ignore")
            a = list(anytree.dotexport.RenderTreeGraph(nodes[0], maxlevel=3, indent=1, options=["x;"]))
        b = list(DotExporter(nodes[0], maxlevel=3, indent=1, options=["x;"]))
        if a != b:
            ctx.violation("C12/rtg/differs", "rendertreegraph-equals-dotexporter", case, expected=b[:20], observed=a[:20])
        G.check_dotfile(ctx, "C12", lib, nodes[0], os.getcwd(), case)


def replay(ctx, wit):
    from ..common import lib as getlib

    lib = getlib()
    c = wit["case"]
    ctx.case(("replay",))
    par, names = c["par"], c["names"]
    nodes = G.build(par, names, c.get("value_semantics", False))
    idmap = {id(o): i for i, o in enumerate(nodes)}
    ph = c.get("phase2")
    G.check_dot(ctx, "C12", c.get("exporter", "dot"), lib, nodes, idmap, names, par, gen.children_of(par), c.get("start", 0), frozenset(c.get("stop", [])),
                frozenset(c.get("hidden", [])), c.get("maxlevel"), c.get("custom"), {"par": par, "names": names}, set(ctx.spec.get("known") or []),
                phase2=ph)
