"""C02, constructor clause: parent= / children= behave like the assignments."""
from .. import gen
from .. import model as M


def _classes(F):
    return {
        "Node": lambda p, xs: F.HNode("new", parent=p, children=xs),
        "AnyNode": lambda p, xs: F.HAny(parent=p, children=xs, id="new"),
        "NM": lambda p, xs: F.NM("new", parent=p, children=xs),
        "LM": lambda p, xs: F.LM("new", parent=p, children=xs),
        "Symlink": lambda p, xs: F.HSym(F.Node("tgt"), parent=p, children=xs),
        "PlainNode": lambda p, xs: F.Node("new", parent=p, children=xs),
        "PlainAnyNode": lambda p, xs: F.AnyNode(parent=p, children=xs),
        "FalsyAny": lambda p, xs: F.FalsyAny(parent=p, children=xs, id="new", name="new"),
        "FalsyNode": lambda p, xs: F.FalsyNode("new", parent=p, children=xs),
    }


def expected(ch, p, xs, xs_truthy, fam):
    k = len(ch)
    st = tuple(ch) + ((),)
    out1, st1, _ = M.model_call(st, ("setparent", k, p), fam)
    if out1 not in ("ok", "noop"):
        return out1, None
    if not xs_truthy:
        return "ok", st1
    out2, st2, _ = M.model_call(st1, ("setchildren", k, tuple(xs), "list"), fam)
    if out2 not in ("ok", "noop"):
        return out2, None
    return "ok", st2


def one(ctx, F, clsname, ch, p, xs, wrap):
    fam = "LM" if clsname == "LM" else "NM"
    base = {"LM": "LM", "NM": "NM", "FalsyAny": "FALSYANY", "FalsyNode": "FALSYNODE"}.get(clsname, "Node")
    nodes = F.materialise(base, ch)
    rec = F.Rec(nodes)
    pobj = None if p is None else F._resolve(nodes, p)
    xobjs = [F._resolve(nodes, x) for x in xs]
    if wrap == "none":
        arg, truthy = None, False
    elif wrap == "list":
        arg, truthy = xobjs, bool(xobjs)
    elif wrap == "tuple":
        arg, truthy = tuple(xobjs), bool(xobjs)
    else:  # generator objects are always truthy
        arg, truthy = (x for x in xobjs), True
    case = {"ctor": clsname, "state": [list(c) for c in ch], "parent": F._jsonable(p), "children": F._jsonable(xs), "wrap": wrap}
    ctx.case(("ctor", clsname, ctx.assertions, ch, p, tuple(xs), wrap), sample=case if ctx.counters["ctor.cases"] % 501 == 0 else None)
    ctx.count("ctor.cases")
    ctx.count("mon.C02.ctor")
    exp_out, exp_st = expected(ch, p, xs, truthy, fam)
    if exp_out == "unspecified":
        return
    exc = None
    new = None
    try:
        new = _classes(F)[clsname](pobj, arg)
    except BaseException as e:  # noqa: B902
        exc = e
    obs = F.outcome_of(exc)
    ctx.count("ctor.outcome." + obs)
    exp_obs = "returned" if exp_out == "ok" else exp_out
    if obs != exp_obs:
        ctx.violation("C02/ctor-outcome/%s/%s-for-%s" % (clsname, obs, exp_out), "ctor-outcome", case, expected=exp_out,
                      observed={"outcome": obs, "exc": None if exc is None else repr(exc)[:200]})
        return
    if new is not None:
        rec.adopt(new)
        snap = rec.snapshot()
        if snap != M.snap_of(exp_st):
            ctx.violation("C02/ctor-effect/%s" % clsname, "ctor-effect", case, expected=F._jsonable(M.snap_of(exp_st)), observed=F._jsonable(snap))
            return
    else:
        # adopt a leaked half-constructed node so that the invariant is evaluated over it too
        if pobj is not None and not M.is_nonnode(p):
            kids = pobj.children
            if kids and rec.label(kids[-1]) not in range(len(nodes)):
                rec.adopt(kids[-1])
        for n in list(nodes):
            q = n.parent
            if q is not None and isinstance(rec.label(q), tuple):
                rec.adopt(q)
        probs = M.invariant(rec.snapshot())
        if probs:
            ctx.violation("C02/ctor-invariant/%s" % clsname, "ctor-invariant", case, expected="consistent forest", observed=probs[:5])


def run(ctx):
    from .. import forest as F

    T = ctx.tier == "thorough"
    idx = 0
    for clsname in ("Node", "AnyNode", "NM", "LM", "Symlink", "PlainNode", "PlainAnyNode", "FalsyAny", "FalsyNode"):
        for k in (1, 2, 3) + ((4,) if T else ()):
            U = list(range(k))
            for ch in gen.ordered_forests(k):
                parents = [None] + U + ([("nonnode", x) for x in ("object", "zero", "emptystr", "emptylist", "false", "emptydict")] if clsname != "LM" else [])
                for p in parents:
                    seqs = list(gen.sequences_norep(U, k if k < 4 else 2))
                    seqs += [(0, 0)] if k >= 1 else []
                    if clsname != "LM":
                        seqs += [(("nonnode", "int"),)]
                    for xs in seqs:
                        for wrap in ("list", "gen") if xs else ("none", "list", "tuple", "gen"):
                            idx += 1
                            if ctx.mine(idx):
                                one(ctx, F, clsname, ch, p, xs, wrap)
    ctx.exhaustive.append("constructors of 9 node classes (incl. falsy node classes and falsy non-node parents): all forests k<=%d x every parent= x every repetition-free children= sequence" % (4 if T else 3))


def replay(ctx, wit):
    from .. import forest as F
    from .forest_engine import tup

    c = wit["case"]
    one(ctx, F, c["ctor"], tup(c["state"]), tup(c["parent"]), tup(c["children"]), c["wrap"])
