"""C06 - filter_, stop and maxlevel restrict all iterators in the same, compositional way."""
from .. import gen
from .. import ref as R

LEVEL = "exploration"
TECHNIQUE = "yielded sequences under every option combination compared with the restriction of the unrestricted reference order to the admitted, unfiltered nodes; exhaustive over stop sets x filter sets x maxlevel on small trees"
RULE = (
    "case = (ordered tree, start node, maxlevel, stop set, filtered-out set) x 5 iterators; all trees up to n nodes x every start x maxlevel in "
    "{None,-1,0..h+2} x all 2^n stop sets x all 2^n filter sets (quick n<=5; thorough n<=6 + sampled n=7), plus random larger trees with random sets; "
    "distinct = hash of the configuration; trivial = no option restricts anything"
)
ASSUMPTIONS = ["filter_ and stop are pure functions of the node (the library may evaluate stop more than once per node)"]
GATES = ["C06.wide_level", "mon.C06.sequence", "C06.stop_on_start", "C06.filtered_with_visible_children", "C06.stop_below_filtered", "C06.empty_group", "C06.maxlevel_le_0", "C06.maxlevel_cuts", "C06.predicate_objects_reused", "C06.predicate_shape.1", "C06.predicate_shape.2", "C06.predicate_shape.3", "C06.predicate_shape.4", "C06.maxlevel_int_subclass", "mon.C06.raising_predicate", "C06.prepared_before_predicates_settled", "C06.truthy_non_bool_answers", "C06.abandoned_traversal_before"]


def plan(tier, seed, jobs):
    n = max(2, min(16, jobs))
    return [{"assertions": i % 2, "shard": i, "nshards": n} for i in range(n)]


class TreeRef:
    def __init__(self, ch, s):
        self.ch = ch
        self.s = s
        self.pre = R.preorder_iter(ch, s)
        self.post = R.postorder(ch, s)
        self.level = R.levelorder(ch, s)
        self.groups = R.groups(ch, s)
        self.h = len(self.groups) - 1

    def expected(self, stop, hidden, maxlevel):
        adm = R.admitted(self.ch, self.s, stop, maxlevel)
        grps = []
        for g in self.groups:
            a = [x for x in g if x in adm]
            if not a:
                break
            grps.append([x for x in a if x not in hidden])
        return adm, {
            "pre": [x for x in self.pre if x in adm and x not in hidden],
            "post": [x for x in self.post if x in adm and x not in hidden],
            "level": [x for x in self.level if x in adm and x not in hidden],
            "group": grps,
            "zigzag": R.zigzag(grps),
        }


def check_config(ctx, nodes, idmap, tr, par, stop, hidden, maxlevel, case, use_none=False, fns=None):
    from ..battery import ITERS

    adm, exp = tr.expected(stop, hidden, maxlevel)
    s = tr.s
    if s in stop:
        ctx.count("C06.stop_on_start")
    if maxlevel is not None and maxlevel <= 0:
        ctx.count("C06.maxlevel_le_0")
    if maxlevel is not None and 0 < maxlevel <= tr.h:
        ctx.count("C06.maxlevel_cuts")
    if any(x in hidden and any(c in adm and c not in hidden for c in tr.ch[x]) for x in adm):
        ctx.count("C06.filtered_with_visible_children")
    if any(x in stop and par[x] is not None and par[x] in hidden and par[x] in adm for x in tr.pre):
        ctx.count("C06.stop_below_filtered")
    if any(not g for g in exp["group"]):
        ctx.count("C06.empty_group")
    kw = {}
    if fns is not None:
        # long-lived predicate objects whose answers follow the current sets
        kw["stop"], kw["filter_"] = fns
    else:
        shape = (len(stop) + 2 * len(hidden) + s + (maxlevel or 0)) % 5
        ctx.count("C06.predicate_shape.%d" % shape)
        if not (use_none and not stop):
            kw["stop"] = predicate(shape, lambda n: idmap[id(n)] in stop)
        if not (use_none and not hidden):
            kw["filter_"] = predicate((shape + 1) % 5, lambda n: idmap[id(n)] not in hidden)
        if (len(stop) + len(hidden) + s) % 5 == 2:
            ctx.count("C06.truthy_non_bool_answers")
            if "stop" in kw:
                kw["stop"] = truthy(kw["stop"])
            if "filter_" in kw:
                kw["filter_"] = truthy(kw["filter_"])
        if stop and (len(stop) + s) % 6 == 1:
            # another traversal of the same tree, with the complementary stop set, was started and abandoned just before
            ctx.count("C06.abandoned_traversal_before")
            other = frozenset(range(len(nodes))) - stop
            for _, itcls0 in ITERS:
                it0 = itcls0(nodes[0], stop=lambda n: idmap[id(n)] in other)
                next(it0, None)
                del it0
    if not (use_none and maxlevel is None):
        kw["maxlevel"] = maxlevel
        if maxlevel is not None and (len(stop) + len(hidden) + s) % 4 == 3:
            # the same number as an instance of an int subclass (an IntEnum member, a bool)
            kw["maxlevel"] = int_like(maxlevel)
            ctx.count("C06.maxlevel_int_subclass")
    ok = True
    for nm, itcls in ITERS:
        ctx.count("mon.C06.sequence")
        try:
            got = list(itcls(nodes[s], **kw))
        except Exception as e:  # noqa: B902 - the predicates never raise when called with a node
            ctx.violation("C06/%s/raised-%s" % (nm, type(e).__name__), "restricted-reference-order",
                          dict(case, start=s, stop=sorted(stop), hidden=sorted(hidden), maxlevel=maxlevel, kwargs=sorted(kw)),
                          expected=exp[nm], observed=repr(e)[:300])
            ok = False
            continue
        if nm in ("group", "zigzag"):
            obs = [[idmap.get(id(x), "?") for x in g] for g in got]
        else:
            obs = [idmap.get(id(x), "?") for x in got]
        if fns is None and (len(stop) + len(hidden) + s) % 7 == 0 and (stop or hidden):
            # iterator objects prepared first, the predicates' answers settle afterwards, then the iteration runs on a
            # tree and under predicates that are constant from its first next() to its end
            late = {"stop": frozenset(range(len(nodes))) - stop, "hidden": frozenset(range(len(nodes))) - hidden}
            kw2 = dict(kw, stop=lambda n: idmap[id(n)] in late["stop"], filter_=lambda n: idmap[id(n)] not in late["hidden"])
            it2 = itcls(nodes[s], **kw2)
            late["stop"], late["hidden"] = stop, hidden
            ctx.count("C06.prepared_before_predicates_settled")
            got2 = list(it2)
            obs2 = [[idmap.get(id(x), "?") for x in g] for g in got2] if nm in ("group", "zigzag") else [idmap.get(id(x), "?") for x in got2]
            if obs2 != exp[nm]:
                ctx.violation("C06/%s/prepared-earlier" % nm, "restricted-reference-order",
                              dict(case, start=s, stop=sorted(stop), hidden=sorted(hidden), maxlevel=maxlevel, kwargs=sorted(kw)), expected=exp[nm], observed=obs2)
                ok = False
                continue
        if obs != exp[nm]:
            ctx.violation("C06/%s" % nm, "restricted-reference-order",
                          dict(case, start=s, stop=sorted(stop), hidden=sorted(hidden), maxlevel=maxlevel, kwargs=sorted(kw)),
                          expected=exp[nm], observed=obs)
            ok = False
    return ok


class _Level(int):
    """An int subclass, as IntEnum members are."""

    def __repr__(self):
        return "Level(%d)" % int(self)


def int_like(n):
    if n in (0, 1) and n is not True and n is not False:
        return bool(n)
    return _Level(n)


class PredicateFailed(RuntimeError):
    """Raised by a user predicate (a RuntimeError subclass, as RecursionError is)."""


def check_raising_predicate(ctx, nodes, idmap, tr, case):
    """A predicate that raises for one admitted node: no iterator may swallow the exception and finish normally."""
    from ..battery import ITERS

    pre = tr.pre
    if len(pre) < 2:
        return True
    victim = pre[len(pre) // 2]
    ok = True
    for which in ("filter_", "stop"):
        def pred(n, victim=victim, which=which):
            if idmap[id(n)] == victim:
                raise PredicateFailed("predicate failed for node %d" % victim)
            return which == "filter_"

        for nm, itcls in ITERS:
            ctx.count("mon.C06.raising_predicate")
            try:
                got = list(itcls(nodes[tr.s], **{which: pred}))
                out = "returned %d items" % len(got)
            except PredicateFailed:
                continue
            except Exception as e:  # noqa: B902
                out = "raised %s" % type(e).__name__
            ctx.violation("C06/%s/predicate-exception-swallowed" % nm, "user-exception-propagates", dict(case, start=tr.s, raising=which, at_node=victim),
                          expected="PredicateFailed propagates out of the iteration", observed=out)
            ok = False
    return ok


class _CallableObject:
    def __init__(self, fn):
        self.fn = fn

    def __call__(self, node):
        return self.fn(node)

    def method(self, node):
        return self.fn(node)


def predicate(shape, fn):
    """The same one-argument predicate in the spellings programs use."""
    import functools

    if shape == 1:
        return lambda n, fn=fn: fn(n)  # the loop-closure idiom: a second parameter with a default
    if shape == 2:
        return functools.partial(lambda fn, n: fn(n), fn)
    if shape == 3:
        return _CallableObject(fn)
    if shape == 4:
        return _CallableObject(fn).method
    return fn


def truthy(fn):
    """The same predicate answering with truthy / falsy non-bool values (a match object or None, a list, a string)."""
    answers = (("yes", ""), ([0], []), (1, 0), (object(), None))

    def pred(n, state={"i": 0}):
        state["i"] += 1
        yes, no = answers[state["i"] % len(answers)]
        return yes if fn(n) else no

    return pred


def run(ctx):
    from .. import trees as TR

    T = ctx.tier == "thorough"
    fams = TR.READ_FAMILIES + ("BARE",)
    idx = 0
    nfull = 6 if T else 5
    for n in range(1, nfull + 1):
        allsets = list(gen.subsets(n))
        for par in gen.ordered_trees(n):
            ch = gen.children_of(par)
            fam = fams[sum(x or 0 for x in par) % len(fams)]
            nodes = None
            for s in range(n):
                tr = None
                for stop in allsets:
                    idx += 1
                    if not ctx.mine(idx):
                        continue
                    if nodes is None:
                        nodes = TR.build(par, fam)
                        idmap = {id(o): i for i, o in enumerate(nodes)}
                    if tr is None:
                        tr = TreeRef(ch, s)
                    case = {"family": fam, "par": list(par)}
                    for ml in [None, -1] + list(range(0, tr.h + 3)):
                        for hidden in allsets:
                            nontriv = bool(stop or hidden or (ml is not None and ml <= tr.h))
                            ctx.case((par, s, ml, stop, hidden), nontrivial=nontriv,
                                     sample=dict(case, start=s, stop=sorted(stop), hidden=sorted(hidden), maxlevel=ml) if ctx.evals % 50021 == 0 else None)
                            if not check_config(ctx, nodes, idmap, tr, par, stop, hidden, ml, case, use_none=(idx % 2 == 0)):
                                break
                if tr is not None:
                    ctx.case((par, s, "raising-predicate"))
                    check_raising_predicate(ctx, nodes, idmap, tr, {"family": fam, "par": list(par)})
        ctx.exhaustive.append("all ordered trees with %d nodes x every start x maxlevel in {None,-1,0..h+2} x all %d stop sets x all %d filter sets x 5 iterators" % (n, len(allsets), len(allsets)))
    # sampled sets on bigger trees
    nrand = (100000 if T else 400) // ctx.nshards + 1
    for r in range(nrand):
        rng = ctx.rng("rand", r)
        n = rng.randint(6, 30)
        wide = r % 11 == 4  # levels / child lists wider than any batching or fast-path threshold
        if wide:
            n = rng.choice((80, 150, 300))
            ctx.count("C06.wide_level")
        par, kind = gen.random_tree(rng, n, rng.choice(("star", "binary", "uniform", "broom")) if wide else None)
        ch = gen.children_of(par)
        fam = fams[r % len(fams)]
        nodes = TR.build(par, fam)
        idmap = {id(o): i for i, o in enumerate(nodes)}
        for _ in range(12):
            s = rng.choice([0, 0, rng.randrange(n)])
            tr = TreeRef(ch, s)
            stop = frozenset(x for x in range(n) if rng.random() < rng.choice([0.0, 0.1, 0.3]))
            hidden = frozenset(x for x in range(n) if rng.random() < rng.choice([0.0, 0.2, 0.6]))
            ml = rng.choice([None, None, 0, 1, 2, 3, tr.h, tr.h + 1, tr.h + 2])
            case = {"family": fam, "par": list(par), "kind": kind}
            ctx.case((par, s, ml, stop, hidden), sample=dict(case, start=s, stop=sorted(stop), hidden=sorted(hidden), maxlevel=ml) if r % 100 == 0 else None)
            check_config(ctx, nodes, idmap, tr, par, stop, hidden, ml, case, use_none=rng.random() < 0.5)
    reused_predicates(ctx)


def reused_predicates(ctx):
    """The same stop / filter_ function objects are passed to many iterations while the sets they consult (and
    the tree) change in between, as state-dependent user predicates do."""
    from .. import trees as TR

    T = ctx.tier == "thorough"
    nh = (30000 if T else 240) // ctx.nshards + 1
    for h in range(nh):
        rng = ctx.rng("reuse", h)
        fam = TR.READ_FAMILIES[h % len(TR.READ_FAMILIES)]
        k = rng.randint(4, 10)
        cur = {"stop": frozenset(), "hidden": frozenset(), "idmap": None}
        stopf = lambda n: cur["idmap"][id(n)] in cur["stop"]  # noqa: E731
        filtf = lambda n: cur["idmap"][id(n)] not in cur["hidden"]  # noqa: E731
        rounds = []
        for nodes, par, ch, case in TR.evolving_universe(ctx, rng, fam, k, rng.randint(3, 10), fault_rate=(0.35 if h % 2 else 0.0)):
            cur["idmap"] = {id(o): i for i, o in enumerate(nodes)}
            for _ in range(2):
                cur["stop"] = frozenset(x for x in range(k) if rng.random() < rng.choice([0.0, 0.15, 0.35]))
                cur["hidden"] = frozenset(x for x in range(k) if rng.random() < rng.choice([0.0, 0.3]))
                s = rng.randrange(k)
                ml = rng.choice([None, None, 1, 2, 3])
                rounds.append([len(case["history"]), s, sorted(cur["stop"]), sorted(cur["hidden"]), ml])
                ctx.count("C06.predicate_objects_reused")
                ctx.case(("reuse", h, len(rounds)), nontrivial=True)
                tr = TreeRef(ch, s)
                if not check_config(ctx, nodes, cur["idmap"], tr, par, cur["stop"], cur["hidden"], ml, dict(case, rounds=[list(x) for x in rounds]), fns=(stopf, filtf)):
                    return


def replay(ctx, wit):
    if "rounds" in wit["case"]:
        from .. import trees as TR

        c = wit["case"]
        ctx.case(("replay",))
        cur = {"stop": frozenset(), "hidden": frozenset(), "idmap": None}
        stopf = lambda n: cur["idmap"][id(n)] in cur["stop"]  # noqa: E731
        filtf = lambda n: cur["idmap"][id(n)] not in cur["hidden"]  # noqa: E731
        for step, (nodes, par, ch) in enumerate(TR.replay_universe(c)):
            cur["idmap"] = {id(o): i for i, o in enumerate(nodes)}
            for st, s, stop, hidden, ml in c["rounds"]:
                if st == step:
                    cur["stop"], cur["hidden"] = frozenset(stop), frozenset(hidden)
                    check_config(ctx, nodes, cur["idmap"], TreeRef(ch, s), par, cur["stop"], cur["hidden"], ml, c, fns=(stopf, filtf))
        return
    _replay_static(ctx, wit)


def _replay_static(ctx, wit):
    from .. import trees as TR

    c = wit["case"]
    par = c["par"]
    nodes = TR.build(par, c["family"])
    idmap = {id(o): i for i, o in enumerate(nodes)}
    if "raising" in c:
        ctx.case(("replay",))
        check_raising_predicate(ctx, nodes, idmap, TreeRef(gen.children_of(par), c.get("start", 0)), {"family": c["family"], "par": par})
        return
    tr = TreeRef(gen.children_of(par), c["start"])
    check_config(ctx, nodes, idmap, tr, par, frozenset(c["stop"]), frozenset(c["hidden"]), c["maxlevel"], c, use_none=False)
    check_config(ctx, nodes, idmap, tr, par, frozenset(c["stop"]), frozenset(c["hidden"]), c["maxlevel"], c, use_none=True)
    ctx.case(("replay",))
