"""C13 - Mermaid export declares exactly the admitted nodes and only edges between them."""
from .. import gen
from . import graphexp as G

LEVEL = "exploration"
TECHNIQUE = "emitted Mermaid lines parsed back into identifiers, labels and edges and compared with the admitted sub-forest of the reference model; identifier stability across iterations; exhaustive over stop sets x filter sets x maxlevel on small trees"
RULE = (
    "case = (tree, start, stop set, filtered-out set, maxlevel, custom-function set, names); all ordered trees up to n nodes x every start x maxlevel None,0..4 x all "
    "stop sets x 4 filter sets (quick n<=5); random trees with hostile names, custom nodenamefunc/nodefunc/edgefunc, options, indent, to_file; distinct = hash of the configuration"
)
ASSUMPTIONS = ["the order of edge lines among themselves is not part of the statement and is not checked"]
GATES = ["mon.C13.export", "C13.large_tree", "C13.edges_checked", "C13.maxlevel0", "C13.stop_and_filter", "C13.hostile_names", "C13.custom", "C13.to_file", "C13.predicate_change", "C13.value_semantics_nodes", "C13.attribute_reassigned", "C13.tree_changed_between_iterations", "C13.aborted_iteration_then_reuse", "C13.falsy_nodes"]


def plan(tier, seed, jobs):
    n = max(2, min(16, jobs))
    return [{"assertions": i % 2, "shard": i, "nshards": n} for i in range(n)]


def run(ctx):
    import os
    from ..common import lib as getlib

    lib = getlib()
    T = ctx.tier == "thorough"
    nmax = 6 if T else 5
    idx = 0
    for n in range(1, nmax + 1):
        allsets = list(gen.subsets(n))
        fsets = G.filter_sets(n) if not T or n > 5 else allsets
        for par in gen.ordered_trees(n):
            ch = gen.children_of(par)
            names = ["n%d" % i for i in range(n)]
            nodes = None
            for s in range(n):
                for stop in allsets:
                    idx += 1
                    if not ctx.mine(idx):
                        continue
                    if nodes is None:
                        nodes = G.build(par, names)
                        idmap = {id(o): i for i, o in enumerate(nodes)}
                    case = {"par": list(par), "names": names}
                    for ml in (None, 0, 1, 2, 3, 4):
                        if ml == 0:
                            ctx.count("C13.maxlevel0")
                        for hidden in fsets:
                            if stop and hidden:
                                ctx.count("C13.stop_and_filter")
                            ctx.case((par, s, stop, hidden, ml), sample=dict(case, start=s, stop=sorted(stop), hidden=sorted(hidden), maxlevel=ml) if ctx.evals % 40009 == 0 else None)
                            G.check_mermaid(ctx, "C13", lib, nodes, idmap, names, par, ch, s, stop, hidden, ml, None, case)
        ctx.exhaustive.append("all ordered trees with %d nodes x every start x maxlevel None,0..4 x all %d stop sets x %d filter sets" % (n, len(allsets), len(fsets)))
    nrand = (150000 if T else 960) // ctx.nshards + 1
    for r in range(nrand):
        rng = ctx.rng("rand", r)
        n = rng.randint(1, 14)
        big = r % 61 == 3  # beyond size thresholds (id tables, caches, batching): more than 1024 admitted nodes
        if big:
            n = rng.choice((1030, 1100, 1300))
            ctx.count("C13.large_tree")
        par, _ = gen.random_tree(rng, n, rng.choice(("uniform", "binary", "star")) if big else None)
        ch = gen.children_of(par)
        names = G.hostile_names(rng, n, rng.random() < 0.4)
        if any(c in str(x) for x in names for c in '"\\'):
            ctx.count("C13.hostile_names")
        valsem = rng.random() < 0.3
        if valsem:
            ctx.count("C13.value_semantics_nodes")
        elif rng.random() < 0.3:
            valsem = "falsy"
            ctx.count("C13.falsy_nodes")
        nodes = G.build(par, names, valsem)
        idmap = {id(o): i for i, o in enumerate(nodes)}
        case = {"par": list(par), "names": names, "value_semantics": valsem}
        for q in range(6):
            # fresh objects per query: the second iteration of a check may rename and move nodes
            nodes = G.build(par, names, valsem)
            idmap = {id(o): i for i, o in enumerate(nodes)}
            s = rng.choice([0, 0, rng.randrange(n)])
            stop = frozenset(x for x in range(n) if rng.random() < rng.choice([0, 0.15, 0.3]))
            hidden = frozenset(x for x in range(n) if rng.random() < rng.choice([0, 0.2, 0.5]))
            ml = rng.choice([None, None, 0, 1, 2, 3, 5])
            custom = rng.choice(G.CUSTOMS + [None])
            if custom:
                ctx.count("C13.custom")
            ctx.case((par, tuple(names), s, stop, hidden, ml, repr(custom)), sample=dict(case, start=s, stop=sorted(stop), hidden=sorted(hidden), maxlevel=ml, custom=custom) if r % 150 == 0 and q == 0 else None)
            phase2 = None
            if q % 2:
                phase2 = G.random_phase2(rng, n, par, s)
            G.check_mermaid(ctx, "C13", lib, nodes, idmap, names, par, ch, s, stop, hidden, ml, custom, case, to_file_dir=os.getcwd() if q == 0 else None, phase2=phase2)


def replay(ctx, wit):
    from ..common import lib as getlib
    import os

    lib = getlib()
    c = wit["case"]
    ctx.case(("replay",))
    par, names = c["par"], c["names"]
    nodes = G.build(par, names, c.get("value_semantics", False))
    idmap = {id(o): i for i, o in enumerate(nodes)}
    ph = c.get("phase2")
    G.check_mermaid(ctx, "C13", lib, nodes, idmap, names, par, gen.children_of(par), c.get("start", 0), frozenset(c.get("stop", [])),
                    frozenset(c.get("hidden", [])), c.get("maxlevel"), c.get("custom"), {"par": par, "names": names}, to_file_dir=os.getcwd(),
                    phase2=ph)
