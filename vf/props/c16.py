"""C16 - notification hooks fire exactly once and in order around each link change."""
from . import forest_engine as E

LEVEL = "exploration"
TECHNIQUE = "online trace automaton over the recorded hook log with whole-forest snapshots taken inside every hook, plus expected-log comparison against the model"
RULE = (
    "case = (family, assertion mode, forest state, call, fault plan); same enumeration as C01; every hook event carries a snapshot of the "
    "whole universe; distinct = hash of the case tuple"
)
ASSUMPTIONS = [
    "re-entrant hooks only in the restricted form 'a pre hook of a parent assignment detaches another child of its parent argument'; such calls are judged by the observation rules R2 only",
    "the hook sequence of a *failed* children assignment (its rollback) is judged by the bracket/observation rules R1/R2 only",
    "calls ending in RecursionError are not judged (the event log may be truncated by the interpreter limit)",
]
GATES = ["mon.C16.automaton", "mon.C16.R3", "mon.C16.R6", "C16.noop_silent", "C16.R5.post_fault_kept", "mon.C16.reentrant_observations"] + [
    "C16.ev." + k for k in ("pre_detach", "post_detach", "pre_attach", "post_attach", "pre_detach_children",
                            "post_detach_children", "pre_attach_children", "post_attach_children")]
MONITORS = ("C16",)


def plan(tier, seed, jobs):
    return E.plan_shards(tier, seed, jobs)


def run(ctx):
    E.Engine(ctx, MONITORS, faults=True).run()


def replay(ctx, wit):
    E.replay(ctx, wit, MONITORS)
