"""C16 - notification hooks fire exactly once and in order around each link change."""
from . import forest_engine as E

LEVEL = "exploration"
TECHNIQUE = "online trace automaton over the recorded hook log with whole-forest snapshots taken inside every hook, plus expected-log comparison against the model"
RULE = (
    "case = (family, assertion mode, forest state, call, fault plan); same enumeration as C01; every hook event carries a snapshot of the "
    "whole universe; distinct = hash of the case tuple"
)
ASSUMPTIONS = [
    "re-entrant hooks only in the restricted form 'a pre hook of a parent assignment detaches another child of its parent argument'; such calls are judged by the observation rules R2 only",
    "the hook sequence of a *failed* children assignment (its rollback) is judged by the bracket/observation rules R1/R2 only",
    "calls ending in RecursionError are not judged (the event log may be truncated by the interpreter limit)",
]
GATES = ["mon.C16.automaton", "mon.C16.wide_node", "mon.C16.R3", "mon.C16.R6", "C16.noop_silent", "C16.R5.post_fault_kept", "mon.C16.reentrant_observations", "mon.C16.late_hooks"] + [
    "C16.ev." + k for k in ("pre_detach", "post_detach", "pre_attach", "post_attach", "pre_detach_children",
                            "post_detach_children", "pre_attach_children", "post_attach_children")]
MONITORS = ("C16",)


def plan(tier, seed, jobs):
    return E.plan_shards(tier, seed, jobs)


def late_hooks(ctx):
    """Hooks that come into existence late: installed on the class after its instances already changed links, or
    bound on a single instance.  Every later link change must still call them."""
    from anytree import LightNodeMixin, NodeMixin

    kinds = ("pre_detach", "post_detach", "pre_attach", "post_attach", "pre_detach_children", "post_detach_children", "pre_attach_children", "post_attach_children")
    for base, slotted in ((NodeMixin, False), (LightNodeMixin, True)):
        cls = type("Late" + base.__name__, (base,), {"__slots__": ()} if slotted else {})
        a, b, c = cls(), cls(), cls()
        names = {id(a): "a", id(b): "b", id(c): "c"}
        b.parent = a  # the first link change of this class happens while no hook is defined
        log = []

        def mk(kind):
            def hook(self, arg):
                log.append((kind, names[id(self)], tuple(names[id(x)] for x in arg) if isinstance(arg, tuple) else names[id(arg)]))
            return hook

        for kind in kinds:
            setattr(cls, "_" + kind, mk(kind))
        c.parent = a
        b.parent = None
        a.children = [c, b]
        del a.children
        exp = [("pre_attach", "c", "a"), ("post_attach", "c", "a"), ("pre_detach", "b", "a"), ("post_detach", "b", "a"),
               ("pre_detach_children", "a", ("c",)), ("pre_detach", "c", "a"), ("post_detach", "c", "a"), ("post_detach_children", "a", ("c",)),
               ("pre_attach_children", "a", ("c", "b")), ("pre_attach", "c", "a"), ("post_attach", "c", "a"), ("pre_attach", "b", "a"), ("post_attach", "b", "a"),
               ("post_attach_children", "a", ("c", "b")),
               ("pre_detach_children", "a", ("c", "b")), ("pre_detach", "c", "a"), ("post_detach", "c", "a"), ("pre_detach", "b", "a"), ("post_detach", "b", "a"),
               ("post_detach_children", "a", ("c", "b"))]
        ctx.case(("late-hooks", base.__name__))
        ctx.count("mon.C16.late_hooks")
        if log != exp:
            ctx.violation("C16/late-hooks/%s" % base.__name__, "hook-log", {"scenario": "hooks installed on the class after its first link change", "base": base.__name__},
                          expected=[list(map(str, e)) for e in exp], observed=[list(map(str, e)) for e in log])
        if not slotted:
            # a hook bound on one instance
            n, p = cls(), cls()
            names.update({id(n): "n", id(p): "p"})
            del log[:]
            n._pre_attach = lambda parent: log.append(("instance_pre_attach", "n", names[id(parent)]))
            n.parent = p
            ctx.case(("instance-hook", base.__name__))
            ctx.count("mon.C16.late_hooks")
            if log != [("instance_pre_attach", "n", "p"), ("post_attach", "n", "p")]:
                ctx.violation("C16/instance-bound-hook/%s" % base.__name__, "hook-log", {"scenario": "a _pre_attach hook bound on the instance", "base": base.__name__},
                              expected=[["instance_pre_attach", "n", "p"], ["post_attach", "n", "p"]], observed=[list(map(str, e)) for e in log])


def run(ctx):
    E.Engine(ctx, MONITORS, faults=True).run()
    if ctx.shard in (0, 1):
        late_hooks(ctx)
    from . import widenode

    widenode.run(ctx, "C16")


def replay(ctx, wit):
    if wit.get("case", {}).get("wide_node"):
        from . import widenode

        ctx.case(("replay",))
        return widenode.run(ctx, "C16")
    E.replay(ctx, wit, MONITORS)
