"""Directed workload shared by C01, C02 and C03: structural calls on a chain deeper than any bound a "safety limit"
could plausibly pick (and deeper than the interpreter's recursion limit).  Nothing in the three statements depends
on the depth of a tree: attaching below a deep node is legal, and closing a loop through a long ancestor chain is
refused like any other loop."""

DEPTH = 1300


def _snapshot(nodes):
    idx = {id(n): i for i, n in enumerate(nodes)}
    return [(idx.get(id(n.parent)) if n.parent is not None else None, [idx.get(id(c), "?") for c in n.children]) for n in nodes]


def _invariant(nodes):
    """Both link directions agree and every parent chain ends (iterative)."""
    for n in nodes:
        p = n.parent
        if p is not None and sum(1 for c in p.children if c is n) != 1:
            return "node is not exactly once among its parent's children"
        for c in n.children:
            if c.parent is not n:
                return "child's parent is another node"
    for n in nodes[-3:] + nodes[:3]:
        steps, x = 0, n
        while x is not None and steps <= len(nodes) + 1:
            x = x.parent
            steps += 1
        if x is not None:
            return "parent chain does not end"
    return None


def run(ctx, prop):
    from .. import forest as F

    if ctx.shard != 0:
        return
    for fam, cls in (("NM", F.NM), ("LM", F.LM)):
        chain = [cls("c%d" % i) for i in range(DEPTH)]
        for i in range(1, DEPTH):
            chain[i].parent = chain[i - 1]
        root, tip = chain[0], chain[-1]
        side = cls("side")
        side.parent = root
        fresh = cls("fresh")
        nodes = chain + [side, fresh]
        steps = [
            ("attach a fresh root below the tip", lambda: setattr(fresh, "parent", tip), "ok"),
            ("move a child of the root below the tip", lambda: setattr(side, "parent", tip), "ok"),
            ("root.parent = tip (closes a loop through %d ancestors)" % DEPTH, lambda: setattr(root, "parent", tip), "LoopError"),
            ("tip.children = [root]", lambda: setattr(tip, "children", [root]), "LoopError"),
            ("move a deep subtree up", lambda: setattr(chain[700], "parent", chain[650]), "ok"),
            ("children assignment at depth > 1000", lambda: setattr(chain[1200], "children", [chain[1201], side]), "ok"),
        ]
        for what, op, want in steps:
            case = {"directed": "chain of %d %s nodes" % (DEPTH, fam), "step": what, "deep_chain": True}
            ctx.case(("deepchain", fam, what))
            ctx.count("mon.%s.deep_chain" % prop)
            before = _snapshot(nodes)
            try:
                op()
                got = "ok"
            except BaseException as e:  # noqa: B902
                got = type(e).__name__
            after = _snapshot(nodes)
            if prop == "C01":
                prob = _invariant(nodes)
                if prob:
                    ctx.violation("C01/deep-chain/invariant", "forest-invariant", case, expected="invariant I", observed=prob)
                    return
            elif prop == "C02":
                if got != want:
                    ctx.violation("C02/deep-chain/outcome/%s-for-%s" % (got, want), "model-outcome", case, expected=want, observed=got)
                    return
            elif prop == "C03":
                if got != "ok" and after != before and what != "tip.children = [root]":
                    ctx.violation("C03/deep-chain/changed", "state-unchanged", case, expected="forest untouched by the raising call", observed={"outcome": got, "changed_nodes": sum(1 for a, b in zip(before, after) if a != b)})
                    return
        if prop == "C02":
            want_side = (fresh, side)
            if tuple(tip.children) != want_side and not (len(tip.children) == 2 and tip.children[0] is fresh):
                pass
            if side.parent is not chain[1200] or chain[700].parent is not chain[650] or fresh.parent is not tip:
                ctx.violation("C02/deep-chain/effect", "model-effect", {"directed": "chain of %d %s nodes" % (DEPTH, fam), "deep_chain": True}, expected="fresh below the tip, side below c1200, c700 below c650",
                              observed={"fresh": getattr(fresh.parent, "name", None), "side": getattr(side.parent, "name", None), "c700": getattr(chain[700].parent, "name", None)})
                return
