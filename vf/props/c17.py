"""C17 - tree operations use node identity only, never user-defined special methods."""
import itertools
import os
import sys

from .. import gen
from .. import model as M

LEVEL = "exploration"
TECHNIQUE = "special-method probes attributed to library call sites by frame inspection (zero library invocations allowed) plus differential execution of the complete API battery and the structural calls on plain vs adversarial node classes"
RULE = (
    "case = (base class, trait combination, scenario) where a scenario is a forest state x structural call x fault plan (k<=3) or a tree on which the complete read-only "
    "battery (navigation, util, iterators with options, search, Walker, Resolver get/glob, RenderTree, DOT/Mermaid exporters) is evaluated; trait matrix over "
    "__eq__/__ne__ {always equal, never equal, by key, raising} x ordering raising x __hash__ {None, constant, raising} x __bool__ {False, raising} x __len__ {0, raising} "
    "x __iter__/__contains__/__getitem__ {mapping-like, raising}, homogeneous and mixed with plain nodes; distinct = hash of (class traits, scenario)"
)
ASSUMPTIONS = [
    "an invocation is attributed to the library when the nearest Python frame outward from the special method that belongs to /repo/anytree or to the harness is a library frame (C-level callers such as tuple.index or 'in' have no frame of their own)",
    "__repr__/__str__/attribute access are not in the property's list and are not probed",
]
GATES = ["mon.C17.invocations", "mon.C17.diff.battery", "mon.C17.diff.structural", "C17.battery_values", "C17.classes", "C17.mixed_universe", "C17.trait.eq", "C17.trait.hash", "C17.trait.bool", "C17.trait.len", "C17.trait.cont", "C17.built_by_constructor", "C17.built_by_constructor_children"]

VERIF_DIR = os.path.dirname(os.path.dirname(os.path.dirname(os.path.abspath(__file__)))) + os.sep
INVOC = []


class Adversarial(Exception):
    pass


def _probe(method):
    from ..common import REPO

    libdir = os.path.join(REPO, "anytree") + os.sep
    f = sys._getframe(2)
    while f is not None:
        fn = f.f_code.co_filename
        if fn.startswith(libdir):
            INVOC.append((method, fn[len(REPO) + 1:], f.f_lineno, f.f_code.co_name))
            return
        if fn.startswith(VERIF_DIR):
            return
        f = f.f_back


EQ = ("none", "always", "never", "bykey", "raise")
ORDER = ("none", "raise")
HASH = ("default", "unhashable", "const", "raise")
BOOL = ("none", "false", "raise")
LEN = ("none", "zero", "raise")
CONT = ("none", "mapping", "raise")


def trait_body(t):
    eq, order, hsh, bl, ln, cont = t
    body = {}
    if eq != "none":
        def __eq__(self, other, eq=eq):
            _probe("__eq__")
            if eq == "always":
                return True
            if eq == "never":
                return False
            if eq == "bykey":
                return getattr(other, "key", None) == self.key
            raise Adversarial("__eq__")

        def __ne__(self, other, eq=eq):
            _probe("__ne__")
            if eq == "always":
                return False
            if eq == "never":
                return True
            if eq == "bykey":
                return getattr(other, "key", None) != self.key
            raise Adversarial("__ne__")

        body["__eq__"] = __eq__
        body["__ne__"] = __ne__
        if hsh == "default":
            hsh = "unhashable"  # Python's own rule for classes defining __eq__
    if order == "raise":
        for nm in ("__lt__", "__le__", "__gt__", "__ge__"):
            def f(self, other, nm=nm):
                _probe(nm)
                raise Adversarial(nm)

            body[nm] = f
    if hsh == "unhashable":
        body["__hash__"] = None
    elif hsh in ("const", "raise"):
        def __hash__(self, hsh=hsh):
            _probe("__hash__")
            if hsh == "const":
                return 42
            raise Adversarial("__hash__")

        body["__hash__"] = __hash__
    if bl != "none":
        def __bool__(self, bl=bl):
            _probe("__bool__")
            if bl == "false":
                return False
            raise Adversarial("__bool__")

        body["__bool__"] = __bool__
    if ln != "none":
        def __len__(self, ln=ln):
            _probe("__len__")
            if ln == "zero":
                return 0
            raise Adversarial("__len__")

        body["__len__"] = __len__
    if cont != "none":
        def __iter__(self, cont=cont):
            _probe("__iter__")
            if cont == "raise":
                raise Adversarial("__iter__")
            return iter(())

        def __contains__(self, item, cont=cont):
            _probe("__contains__")
            if cont == "raise":
                raise Adversarial("__contains__")
            return True

        def __getitem__(self, key, cont=cont):
            _probe("__getitem__")
            if cont == "raise":
                raise Adversarial("__getitem__")
            raise KeyError(key)

        body["__iter__"] = __iter__
        body["__contains__"] = __contains__
        body["__getitem__"] = __getitem__
    return body


_CLASSES = {}


def make_class(base, t):
    """Instrumented (hook-recording) node class on ``base`` with traits t."""
    from .. import forest as F

    key = (base, t)
    if key in _CLASSES:
        return _CLASSES[key]
    body = trait_body(t)
    if base == "NM":
        def __init__(self, name, key=0):
            self.name = name
            self.key = key

        body["__init__"] = __init__
        cls = type("AdvNM", (F.Hooks, F.NodeMixin), body)
    elif base == "LM":
        def __init__(self, name, key=0):
            self.name = name
            self.key = key

        body["__init__"] = __init__
        body["__slots__"] = ("name", "key")
        cls = type("AdvLM", (F.Hooks, F.LightNodeMixin), body)
    elif base == "Node":
        def __init__(self, name, key=0, parent=None, children=None):
            F.Node.__init__(self, name, parent=parent, children=children, key=key)

        body["__init__"] = __init__
        cls = type("AdvNode", (F.Hooks, F.Node), body)
    else:
        raise ValueError(base)
    _CLASSES[key] = cls
    return cls


PLAIN = ("none", "none", "default", "none", "none", "none")


def _qclass(q):
    import re

    parts = q.split(".")
    if re.match(r"n\d+$", parts[0]):
        parts = parts[1:]
    return re.sub(r"\d+", "", ".".join(parts[:2]))[:40]


def universe(base, t, k, keys, mixed=False):
    adv = make_class(base, t)
    plain = make_class(base, PLAIN)
    out = []
    for i in range(k):
        cls = plain if (mixed and i % 2) else adv
        out.append(cls("n%d" % i, keys[i]))
    return out


def trait_list(tier, rng):
    singles = []
    for i, vals in enumerate((EQ, ORDER, HASH, BOOL, LEN, CONT)):
        for v in vals[1:]:
            t = list(PLAIN)
            t[i] = v
            singles.append(tuple(t))
    full = [t for t in itertools.product(EQ, ORDER, HASH, BOOL, LEN, CONT) if t != PLAIN and not (t[0] != "none" and t[2] == "default")]
    rng.shuffle(full)
    worst = [("always", "raise", "unhashable", "false", "zero", "mapping"), ("never", "raise", "raise", "raise", "raise", "raise"),
             ("bykey", "none", "const", "false", "none", "mapping"), ("raise", "raise", "raise", "raise", "raise", "raise")]
    if tier == "thorough":
        return singles + worst + full
    return singles + worst + full[:24]


def plan(tier, seed, jobs):
    n = max(2, min(16, jobs))
    return [{"assertions": i % 2, "shard": i, "nshards": n, "recursionlimit": 400} for i in range(n)]


def run_class(ctx, base, t, mixed, full_structural):
    from .. import battery as B
    from .. import forest as F

    ctx.count("C17.classes")
    if mixed:
        ctx.count("C17.mixed_universe")
    for nm, v, d in zip(("eq", "order", "hash", "bool", "len", "cont"), t, PLAIN):
        if v != d:
            ctx.count("C17.trait." + nm)
    tag = "%s/%s%s" % (base, "-".join(t), "/mixed" if mixed else "")
    rng = ctx.rng("cls", tag)

    def keys_for(k):
        return [rng.choice([0, 1]) for _ in range(k)]

    def flush(case):
        """Report library invocations recorded since the last flush."""
        ctx.count("mon.C17.invocations")
        if INVOC:
            seen = set()
            for method, fn, line, func in INVOC:
                if (method, fn, line) in seen:
                    continue
                seen.add((method, fn, line))
                ctx.violation("C17/invoked/%s@%s:%s" % (method, fn, func), "special-method-probe", case, expected="no invocation by the library",
                              observed={"method": method, "file": fn, "line": line, "function": func})
            del INVOC[:]
            return False
        return True

    # ---- structural differential (k <= 3)
    famA, famP = "ADV", "PLAINREF"
    for k in (2, 3):
        for si, ch in enumerate(gen.ordered_forests(k)):
            keys = keys_for(k)
            F.CUSTOM_FAMILIES[famA] = lambda kk, keys=keys: universe(base, t, kk, keys, mixed)
            F.CUSTOM_FAMILIES[famP] = lambda kk, keys=keys: universe(base, PLAIN, kk, keys, False)
            calls = list(F.all_calls(k, "LM", itkinds=("list",)))
            for ci, call in enumerate(calls):
                if not full_structural and (si + ci) % 5:
                    continue
                plans = [("none",)]
                if (si + ci) % 3 == 0:
                    plans += [("once", 0), ("once", 2), ("persist", "pre_attach", None)]
                for pl in plans:
                    case = {"base": base, "traits": list(t), "mixed": mixed, "keys": keys, "state": [list(c) for c in ch], "call": F._jsonable(call), "plan": F._jsonable(pl)}
                    ctx.case(("struct", tag, ch, call, pl), sample=case if ctx.evals % 20011 == 0 else None)
                    ctx.count("mon.C17.diff.structural")
                    with ctx.guard(case):
                        exa = F.execute(famA, ch, call, pl)
                        exp = F.execute(famP, ch, call, pl)
                        ok = flush(case)
                        if (exa.outcome, exa.post, exa.events) != (exp.outcome, exp.post, exp.events):
                            ctx.violation("C17/diff/structural/%s" % call[0], "differential", case,
                                          expected={"outcome": exp.outcome, "post": F._jsonable(exp.post), "events": F._jsonable(exp.events[:30])},
                                          observed={"outcome": exa.outcome, "post": F._jsonable(exa.post), "events": F._jsonable(exa.events[:30]), "exc": exa.excrepr})
                            ok = False
                        if not ok:
                            return False
    # ---- battery differential on trees
    shapes = []
    for n in (1, 2, 3, 4):
        shapes += [p for p in gen.ordered_trees(n)]
    for _ in range(3):
        n = rng.randint(5, 7)
        shapes.append(gen.random_tree(rng, n)[0])
    for par in shapes:
        k = len(par)
        keys = keys_for(k)
        case = {"base": base, "traits": list(t), "mixed": mixed, "keys": keys, "par": list(par)}
        ctx.case(("battery", tag, par, tuple(keys)), sample=case if ctx.evals % 5003 == 0 else None)
        with ctx.guard(case):
            if base == "Node" and not mixed:
                # through the constructor's parent= argument (pre-order arrays: parents precede their children)
                advc, plnc = make_class(base, t), make_class(base, PLAIN)
                advn, plnn = [], []
                if sum(keys) % 2:
                    # bottom-up through the constructor's children= argument (children are built before their parent)
                    chl = gen.children_of(par)
                    advn, plnn = [None] * k, [None] * k
                    for i in reversed(range(k)):
                        advn[i] = advc("n%d" % i, keys[i], children=[advn[c] for c in chl[i]])
                        plnn[i] = plnc("n%d" % i, keys[i], children=[plnn[c] for c in chl[i]])
                    ctx.count("C17.built_by_constructor_children")
                else:
                    for i, p in enumerate(par):
                        advn.append(advc("n%d" % i, keys[i], parent=None if p is None else advn[p]))
                        plnn.append(plnc("n%d" % i, keys[i], parent=None if p is None else plnn[p]))
                ctx.count("C17.built_by_constructor")
            else:
                advn = universe(base, t, k, keys, mixed)
                plnn = universe(base, PLAIN, k, keys, False)
                for i, p in enumerate(par):
                    if p is not None:
                        advn[i].parent = advn[p]
                        plnn[i].parent = plnn[p]
            del INVOC[:]
            ba = B.battery(advn, level=1)
            ok = flush(case)
            bp = B.battery(plnn, level=1)
            ctx.count("mon.C17.diff.battery")
            ctx.count("C17.battery_values", len(ba))
            d = B.diff(bp, ba)
            if d:
                q = d[0][0]
                ctx.violation("C17/diff/%s" % _qclass(q), "differential", dict(case, query=q), expected=F._jsonable(d[0][1:2]),
                              observed={"adversarial": F._jsonable(d[0][2:]), "more": [x[0] for x in d[1:]]})
                ok = False
            if not ok:
                return False
    return True


def run(ctx):
    T = ctx.tier == "thorough"
    import random

    traits = trait_list(ctx.tier, random.Random("%s/C17/traits" % ctx.seed))
    idx = 0
    for base in ("NM", "Node", "LM"):
        for ti, t in enumerate(traits):
            for mixed in (False, True):
                if mixed and ti % 3 and not T:
                    continue
                if base != "NM" and not T and ti % 2:
                    continue
                idx += 1
                if not ctx.mine(idx):
                    continue
                run_class(ctx, base, t, mixed, full_structural=(T or ti % 7 == 0))


def replay(ctx, wit):
    c = wit["case"]
    ctx.case(("replay",))
    run_class(ctx, c["base"], tuple(c["traits"]), c.get("mixed", False), True)
