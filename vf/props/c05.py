"""C05 - each iterator visits every node of the subtree exactly once in its defined order."""
from .. import gen
from .. import ref as R

LEVEL = "exploration"
TECHNIQUE = "yielded identity sequences of the five iterators compared with independently computed reference orders (recursion / stable sort by depth), exactly-once and no-mutation checks, exhaustive small scope"
RULE = (
    "case = (family, ordered tree shape, start node) x 5 iterators; all ordered trees up to n nodes x every start node exhaustively, plus random "
    "shapes up to 60 nodes incl. depth >= 6; distinct = hash of (family, shape, start); trivial = single-node subtree"
)
ASSUMPTIONS = ["depth <= 150 for the two recursive iterators (pre-order, post-order); the three level-order iterators are also driven through a 1 300-level chain"]
GATES = ["mon.C05.sequence", "C05.depth_ge_4", "C05.cousins_at_different_positions", "C05.protocol", "C05.after_mutation", "C05.deep_spine_with_bush", "C05.streamed_groups", "C05.deeper_than_recursion_limit", "C05.non_restrictive_maxlevel", "C05.abandoned_traversal_before"]


_DONE = object()


def plan(tier, seed, jobs):
    n = max(2, min(16, jobs))
    return [{"assertions": i % 2, "shard": i, "nshards": n} for i in range(n)]


def expected_all(ch, s):
    grps = R.groups(ch, s)
    return {
        "pre": R.preorder_iter(ch, s),
        "post": R.postorder(ch, s),
        "level": R.levelorder(ch, s),
        "group": grps,
        "zigzag": R.zigzag(grps),
    }


def check_tree(ctx, nodes, par, ch, case, starts=None):
    from ..battery import ITERS

    idmap = {id(o): i for i, o in enumerate(nodes)}
    snap0 = [(idmap.get(id(n.parent)), [idmap.get(id(c)) for c in n.children]) for n in nodes]
    ok = True
    for s in starts if starts is not None else range(len(nodes)):
        exp = expected_all(ch, s)
        sub = set(exp["pre"])
        # cross-check of the two reference formulations
        assert [x for g in exp["group"] for x in g] == exp["level"]
        if len(exp["group"]) >= 5:
            ctx.count("C05.depth_ge_4")
        if len(exp["group"]) >= 3:
            # an earlier grouped traversal of this tree was abandoned after two levels
            for nm0, itcls0 in ITERS:
                if nm0 in ("group", "zigzag"):
                    it0 = itcls0(nodes[s])
                    next(it0, None), next(it0, None)  # noqa: B018
                    del it0
            ctx.count("C05.abandoned_traversal_before")
        for nm, itcls in ITERS:
            ctx.count("mon.C05.sequence")
            it = itcls(nodes[s])
            if iter(it) is not it:
                ctx.count("C05.info.iter_returns_other_object")  # not part of the statement: recorded, not judged
            got = list(it)
            ctx.count("C05.protocol")
            if hasattr(it, "__next__"):
                # the same iterator object driven further with next(): "exactly once and nothing else"
                again = next(it, _DONE)
                if again is not _DONE:
                    ctx.violation("C05/exactly-once/%s-yields-after-exhaustion" % nm, "exactly-once", dict(case, start=s), expected="StopIteration again", observed=repr(again)[:80])
                    ok = False
                    continue
            if list(it) != []:
                ctx.count("C05.info.reiterable")  # not part of the statement: recorded, not judged
            if nm in ("group", "zigzag"):
                if any(type(g) is not tuple for g in got):
                    obs = "non-tuple group"
                else:
                    obs = [[idmap.get(id(x), "?") for x in g] for g in got]
                flat = [x for g in obs for x in g] if obs != "non-tuple group" else None
            else:
                obs = [idmap.get(id(x), "?") for x in got]
                flat = obs
            if obs != exp[nm]:
                ctx.violation("C05/order/%s" % nm, "reference-order", dict(case, start=s), expected=exp[nm], observed=obs)
                ok = False
                continue
            if len(exp["pre"]) <= 12:
                # a limit that does not limit: exactly the number of levels, one more, a huge number
                for ml in (len(exp["group"]), len(exp["group"]) + 1, 10 ** 9):
                    ctx.count("C05.non_restrictive_maxlevel")
                    g2 = list(itcls(nodes[s], maxlevel=ml))
                    o2 = [[idmap.get(id(x), "?") for x in g] for g in g2] if nm in ("group", "zigzag") else [idmap.get(id(x), "?") for x in g2]
                    if o2 != obs:
                        ctx.violation("C05/order/%s-non-restrictive-maxlevel" % nm, "reference-order", dict(case, start=s, maxlevel=ml), expected=obs, observed=o2)
                        ok = False
                        break
            if nm in ("group", "zigzag") and len(obs) >= 3:
                # streaming consumption: every group is dropped before the next one is requested
                ctx.count("C05.streamed_groups")
                stream = []
                it3 = itcls(nodes[s])
                for grp in it3:
                    stream.append([idmap.get(id(x), "?") for x in grp])
                    del grp
                    try:
                        repr(it3)  # a debugger / log line looking at the running iterator
                    except Exception:  # noqa: B902
                        pass
                if stream != obs:
                    ctx.violation("C05/order/%s-streamed" % nm, "reference-order", dict(case, start=s), expected=obs, observed=stream)
                    ok = False
                    continue
            if sorted(flat) != sorted(sub):
                ctx.violation("C05/exactly-once/%s" % nm, "exactly-once", dict(case, start=s), expected=sorted(sub), observed=flat)
                ok = False
        # cousins whose parents are at different positions
        g = exp["group"]
        if len(g) >= 3 and len(g[1]) >= 2 and len({par[x] for x in g[2]}) >= 2:
            ctx.count("C05.cousins_at_different_positions")
    snap1 = [(idmap.get(id(n.parent)), [idmap.get(id(c)) for c in n.children]) for n in nodes]
    if snap1 != snap0:
        ctx.violation("C05/mutated", "no-mutation", case, expected=snap0, observed=snap1)
        ok = False
    return ok


def run(ctx):
    from .. import trees as TR

    T = ctx.tier == "thorough"
    nmax = 11 if T else 8
    fams = TR.READ_FAMILIES + ("BARE",)
    idx = 0
    for n in range(1, nmax + 1):
        cnt = 0
        for par in gen.ordered_trees(n):
            cnt += 1
            idx += 1
            if not ctx.mine(idx):
                continue
            ch = gen.children_of(par)
            fam = fams[idx % len(fams)]
            nodes = TR.build(par, fam)
            case = {"family": fam, "par": list(par)}
            for s in range(n):
                ctx.case((fam, par, s), nontrivial=bool(ch[s]), sample=dict(case, start=s) if (idx * 13 + s) % 1999 == 0 else None)
            check_tree(ctx, nodes, list(par), ch, case)
        ctx.exhaustive.append("all %d ordered trees with %d nodes x every start node x 5 iterators" % (cnt, n))
    nrand = (100000 if T else 640) // ctx.nshards + 1
    for r in range(nrand):
        rng = ctx.rng("shape", r)
        n = rng.randint(5, 60)
        kind = "deep" if r % 5 == 0 else None
        if r % 4 == 1:
            kind, n = "spinebush", rng.randint(45, 130)
        par, kind = gen.random_tree(rng, n, kind)
        if kind == "spinebush":
            ctx.count("C05.deep_spine_with_bush")
        fam = fams[r % len(fams)]
        nodes = TR.build(par, fam)
        starts = [0] + [rng.randrange(n) for _ in range(4)]
        case = {"family": fam, "par": list(par), "kind": kind}
        for s in starts:
            ctx.case((fam, par, s), sample=dict(case, start=s) if r % 200 == 0 and s == 0 else None)
        check_tree(ctx, nodes, list(par), gen.children_of(par), case, starts)
    deep_chain(ctx)
    histories(ctx)


def deep_chain(ctx):
    """The three level-order iterators work level by level without recursion, so a subtree deeper than the
    interpreter's recursion limit is still enumerated completely."""
    from .. import trees as TR
    from ..battery import ITERS

    if ctx.shard > 2:
        return
    fam = ("Node", "LM", "NM")[ctx.shard]
    n = 1300
    par = [None] + list(range(n - 1))
    nodes = TR.build(par, fam)
    idmap = {id(o): i for i, o in enumerate(nodes)}
    for s in (0, 137):
        ctx.case(("deepchain", fam, s), sample={"family": fam, "par": "chain(%d)" % n, "start": s})
        for nm, itcls in ITERS:
            if nm not in ("level", "group", "zigzag"):
                continue
            ctx.count("mon.C05.sequence")
            ctx.count("C05.deeper_than_recursion_limit")
            got = list(itcls(nodes[s]))
            if nm == "level":
                obs = [idmap.get(id(x), "?") for x in got]
                exp = list(range(s, n))
            else:
                obs = [[idmap.get(id(x), "?") for x in g] for g in got]
                exp = [[i] for i in range(s, n)]
            if obs != exp:
                ctx.violation("C05/order/%s-deep-chain" % nm, "reference-order", {"family": fam, "par": "chain(%d)" % n, "start": s, "deepchain": True},
                              expected="%d levels, ending %r" % (len(exp), exp[-3:]), observed="%d items, ending %r" % (len(obs), obs[-3:]))


def histories(ctx):
    """The iterators are re-run on the same node objects after every step of a mutation history."""
    from .. import trees as TR

    T = ctx.tier == "thorough"
    nh = (30000 if T else 240) // ctx.nshards + 1
    for h in range(nh):
        rng = ctx.rng("hist", h)
        fam = TR.READ_FAMILIES[h % len(TR.READ_FAMILIES)]
        k = rng.randint(4, 10)
        for nodes, par, ch, case in TR.evolving_universe(ctx, rng, fam, k, rng.randint(4, 20), fault_rate=(0.3 if h % 2 else 0.0)):
            starts = [rng.randrange(k) for _ in range(3)] + [i for i in range(k) if par[i] is None][:2]
            for s in starts:
                ctx.case(("hist", h, len(case["history"]), s), nontrivial=bool(ch[s]))
            ctx.count("C05.after_mutation")
            if not check_tree(ctx, nodes, par, ch, case, starts):
                break


def replay(ctx, wit):
    if wit["case"].get("deepchain"):
        ctx.case(("replay",))
        for sh in (0, 1, 2):
            ctx.shard = sh
            deep_chain(ctx)
        return
    if "history" in wit["case"]:
        from .. import trees as TR

        ctx.case(("replay",))
        for nodes, par, ch in TR.replay_universe(wit["case"]):
            check_tree(ctx, nodes, par, ch, wit["case"])
        return
    _replay_static(ctx, wit)


def _replay_static(ctx, wit):
    from .. import trees as TR

    c = wit["case"]
    par = c["par"]
    check_tree(ctx, TR.build(par, c["family"]), par, gen.children_of(par), c, [c["start"]] if "start" in c else None)
    ctx.case(("replay",))
