"""C10 - dictionary export and import are faithful inverses of each other."""
import collections
import copy

from .. import gen
from .. import ref as R

LEVEL = "exploration"
TECHNIQUE = "exported dictionaries compared with an independent serialiser over the recorded attributes (type and key order of every nested dict), import/export round trips compared structurally, deep before/after snapshots of the arguments"
RULE = (
    "case = (tree, start, attribute dictionaries, maxlevel, attriter/childiter/dictcls option set, nodecls); all ordered trees up to n nodes x every start "
    "x maxlevel None,0..h+1 x 10 option sets x 3 node classes with seeded attribute dictionaries; random trees with rich attribute values; "
    "distinct = hash of the configuration; trivial = none"
)
ASSUMPTIONS = [
    "attribute keys are strings other than parent/children and the constructor's own parameter names (self; name is present for Node): the importer passes attributes as keyword arguments",
]
GATES = ["mon.C10.export", "mon.C10.import", "mon.C10.roundtrip", "mon.C10.args_unchanged", "C10.maxlevel_cuts", "C10.leaf_attrs", "C10.empty_children_input", "C10.nested_dictcls", "C10.options_deep", "C10.exporter_reused", "C10.aborted_export_then_reuse", "C10.tree_used_before_export", "C10.maxlevel_int_subclass"]


def plan(tier, seed, jobs):
    n = max(2, min(16, jobs))
    return [{"assertions": i % 2, "shard": i, "nshards": n} for i in range(n)]


class MyDict(dict):
    pass


def deep_eq(a, b, ordered=False):
    """Strict structural equality: same types, floats by repr; key order only when ``ordered`` (it is defined by the
    statement only where an attriter imposes it - the insertion order of a node's instance dict is not)."""
    if type(a) is not type(b):
        return False
    if isinstance(a, dict):
        if ordered and list(a.keys()) != list(b.keys()):
            return False
        if set(a.keys()) != set(b.keys()):
            return False
        return all(deep_eq(a[k], b[k], ordered) for k in a)
    if isinstance(a, (list, tuple)):
        return len(a) == len(b) and all(deep_eq(x, y, ordered) for x, y in zip(a, b))
    if isinstance(a, float):
        return repr(a) == repr(b)
    return a == b


def ref_export(attrs, ch, s, maxlevel, attr_fn, child_fn, dictcls, level=1):
    items = list(attrs[s].items())
    if attr_fn is not None:
        items = attr_fn(items)
    d = dictcls(items)
    if maxlevel is None or level < maxlevel:
        kids = list(ch[s])
        if child_fn is not None:
            kids = child_fn(kids)
        sub = [ref_export(attrs, ch, c, maxlevel, attr_fn, child_fn, dictcls, level + 1) for c in kids]
        if sub:
            d["children"] = sub
    return d


def option_sets(idmap):
    lab = lambda n: idmap[id(n)]  # noqa: E731
    return [
        ("default", {}, None, None, dict),
        ("explicit", {"dictcls": dict, "attriter": None, "childiter": list}, None, None, dict),
        ("ordered-sorted", {"dictcls": collections.OrderedDict, "attriter": sorted}, lambda it: sorted(it), None, collections.OrderedDict),
        ("filter-attr", {"attriter": lambda attrs: [(k, v) for k, v in attrs if k != "a"], "dictcls": MyDict}, lambda it: [(k, v) for k, v in it if k != "a"], None, MyDict),
        ("rev-children", {"childiter": lambda ch: list(reversed(ch))}, None, lambda ks: list(reversed(ks)), dict),
        ("sorted-filter-children", {"childiter": lambda ch: sorted([c for c in ch if lab(c) % 3], key=lab, reverse=True), "attriter": lambda attrs: reversed(list(attrs)), "dictcls": collections.OrderedDict},
         lambda it: list(reversed(it)), lambda ks: sorted([k for k in ks if k % 3], reverse=True), collections.OrderedDict),
        ("tuple-children", {"childiter": tuple}, None, None, dict),
        # lazy iterators are always truthy, whatever they will yield
        ("lazy-reversed", {"childiter": reversed}, None, lambda ks: list(reversed(ks)), dict),
        ("lazy-generator", {"childiter": lambda ch: (c for c in ch if lab(c) % 4 != 1), "attriter": lambda attrs: (kv for kv in attrs)}, None, lambda ks: [k for k in ks if k % 4 != 1], dict),
        ("lazy-iter", {"childiter": iter, "dictcls": collections.OrderedDict}, None, None, collections.OrderedDict),
    ]


class UserNode:
    pass


def user_class():
    from anytree import NodeMixin

    class UNode(NodeMixin):
        def __init__(self, parent=None, **kw):
            self.__dict__.update(kw)
            self.parent = parent

    return UNode


_FALSY = []
_LIGHT = []


def light_class():
    """LightNodeMixin subclass without __slots__ of its own: the instances have a __dict__ for user attributes while the
    tree bookkeeping lives in the mixin's slots (an exporter that peeks at NodeMixin's private storage sees no children)."""
    from anytree import LightNodeMixin

    if not _LIGHT:
        class LNode(LightNodeMixin):
            def __init__(self, parent=None, **kw):
                self.__dict__.update(kw)
                self.parent = parent

        _LIGHT.append(LNode)
    return _LIGHT[0]


def falsy_class():
    """AnyNode subclass whose instances are falsy while they have no children (container-like)."""
    from anytree import AnyNode

    if not _FALSY:
        class FalsyAnyNode(AnyNode):
            def __len__(self):
                return len(self.children)

        _FALSY.append(FalsyAnyNode)
    return _FALSY[0]


def build(lib, par, attrs, kind):
    from anytree import AnyNode, Node

    n = len(par)
    if kind == "AnyNode":
        nodes = [AnyNode(**attrs[i]) for i in range(n)]
        recorded = [dict(attrs[i]) for i in range(n)]
    elif kind == "Falsy":
        cls = falsy_class()
        nodes = [cls(**attrs[i]) for i in range(n)]
        recorded = [dict(attrs[i]) for i in range(n)]
    elif kind == "Node":
        nodes = [Node("nm%d" % i, **attrs[i]) for i in range(n)]
        recorded = [dict(list(attrs[i].items()) + [("name", "nm%d" % i)]) for i in range(n)]
    elif kind == "Light":
        cls = light_class()
        nodes = [cls(**attrs[i]) for i in range(n)]
        recorded = [dict(attrs[i]) for i in range(n)]
    else:
        cls = user_class()
        nodes = [cls(**attrs[i]) for i in range(n)]
        recorded = [dict(attrs[i]) for i in range(n)]
    for i, p in enumerate(par):
        if p is not None:
            nodes[i].parent = nodes[p]
    return nodes, recorded


def tree_snapshot(nodes):
    idmap = {id(o): i for i, o in enumerate(nodes)}
    return [(idmap.get(id(n.parent)), [idmap.get(id(c)) for c in n.children], copy.deepcopy({k: v for k, v in vars(n).items() if "Mixin__" not in k})) for n in nodes]


def check_dict_types(d, dictcls):
    if type(d) is not dictcls:
        return False
    return all(check_dict_types(c, dictcls) for c in d.get("children", []))


def compare_tree(root, exp, nodecls, path="root"):
    """Imported tree vs expected nested dict (attrs + children)."""
    if type(root) is not nodecls:
        return "%s: class %s" % (path, type(root).__name__)
    got = {k: v for k, v in vars(root).items() if "Mixin__" not in k}
    want = {k: v for k, v in exp.items() if k != "children"}
    if sorted(got) != sorted(want) or not all(deep_eq(got[k], want[k]) for k in want):
        return "%s: attributes %r != %r" % (path, got, want)
    kids = root.children
    ek = exp.get("children", [])
    if len(kids) != len(ek):
        return "%s: %d children, expected %d" % (path, len(kids), len(ek))
    for i, (k, e) in enumerate(zip(kids, ek)):
        if k.parent is not root:
            return "%s/%d: parent link" % (path, i)
        r = compare_tree(k, e, nodecls, "%s/%d" % (path, i))
        if r:
            return r
    return None


def strip_empty_children(d):
    out = type(d)((k, v) for k, v in d.items() if k != "children")
    kids = [strip_empty_children(c) for c in d.get("children", [])]
    if kids:
        out["children"] = kids
    return out


def check_export(ctx, lib, nodes, recorded, ch, s, ml, opt, case):
    from anytree.exporter import DictExporter

    oname, kw, attr_fn, child_fn, dictcls = opt
    kw = dict(kw)
    if ml is not None:
        kw["maxlevel"] = ml
    cfg = dict(case, start=s, maxlevel=ml, options=oname)
    ctx.count("mon.C10.export")
    before = tree_snapshot(nodes)
    exp = ref_export(recorded, ch, s, ml, attr_fn, child_fn, dictcls)
    if ml is not None and (s + len(oname)) % 3 == 0:
        from .c06 import int_like

        kw = dict(kw, maxlevel=int_like(ml))  # the same number as a bool / an instance of an int subclass (IntEnum-like)
        ctx.count("C10.maxlevel_int_subclass")
    exporter = DictExporter(**kw)
    got = exporter.export(nodes[s])
    if ml is not None and ml <= R.height(ch, s):
        ctx.count("C10.maxlevel_cuts")
    if oname != "default" and R.height(ch, s) >= 2:
        ctx.count("C10.options_deep")
    if R.height(ch, s) >= 1 and any(recorded[x] for x in R.leaves(ch, s)):
        ctx.count("C10.leaf_attrs")
    if not deep_eq(got, exp, ordered=(oname == "ordered-sorted")):
        ctx.violation("C10/export/%s" % oname, "independent-serialiser", cfg, expected=repr(exp)[:800], observed=repr(got)[:800])
        return None
    if not check_dict_types(got, dictcls):
        ctx.violation("C10/export/dictcls", "dictcls-at-every-level", cfg, expected=dictcls.__name__, observed=repr(got)[:300])
        return None
    if R.height(ch, s) >= 2 and dictcls is not dict:
        ctx.count("C10.nested_dictcls")
    ctx.count("mon.C10.args_unchanged")
    after = tree_snapshot(nodes)
    if not deep_eq(before, after):
        ctx.violation("C10/export/mutates-tree", "argument-unchanged", cfg, expected="tree unchanged", observed="tree changed")
        return None
    if not deep_eq(exporter.export(nodes[s]), exp):
        ctx.violation("C10/export/second-call", "independent-serialiser", cfg, expected="same result on second export", observed="differs")
        return None
    return got


def check_import(ctx, lib, data, nodecls, clsname, case):
    from anytree.importer import DictImporter

    ctx.count("mon.C10.import")
    keep = copy.deepcopy(data)
    # identity of nested containers must not be disturbed either
    imp = DictImporter(nodecls) if clsname != "default" else DictImporter()
    try:
        root = imp.import_(data)
    except BaseException as e:  # noqa: B902
        ctx.violation("C10/import/%s" % type(e).__name__, "import", dict(case, nodecls=clsname), expected="tree", observed=repr(e)[:300])
        return None
    ctx.count("mon.C10.args_unchanged")
    if not deep_eq(data, keep):
        ctx.violation("C10/import/mutates-argument", "argument-unchanged", dict(case, nodecls=clsname), expected=repr(keep)[:500], observed=repr(data)[:500])
        return None
    r = compare_tree(root, keep, nodecls)
    if r:
        ctx.violation("C10/import/tree", "import", dict(case, nodecls=clsname), expected=repr(keep)[:500], observed=r[:500])
        return None
    if root.parent is not None:
        ctx.violation("C10/import/root-has-parent", "import", dict(case, nodecls=clsname), expected=None, observed="parent set")
        return None
    return root


def check_reuse(ctx, lib, rng, nodes, recorded, ch, opts, case):
    """One exporter object used again and again while its public option attributes are changed in between and
    after an export that was aborted by an exception from a user callback."""
    from anytree.exporter import DictExporter

    n = len(nodes)
    exporter = DictExporter()
    log = []

    class Boom(Exception):
        pass

    for step in range(6):
        oname, kw, attr_fn, child_fn, dictcls = opts[rng.randrange(len(opts))]
        s = rng.randrange(n)
        ml = rng.choice([None, None, 0, 1, 2, 3])
        if rng.random() < 0.35 and R.height(ch, s) >= 1:
            # abort an export somewhere below the start node, then carry on with the same object
            victim = rng.choice([x for x in R.preorder_iter(ch, s) if x != s])
            depth_reached = {"n": 0}

            def boom_childiter(children, victim=victim):
                out = []
                for c in children:
                    if c is nodes[victim]:
                        raise Boom()
                    out.append(c)
                return out

            exporter.childiter = boom_childiter
            exporter.maxlevel = None
            try:
                exporter.export(nodes[s])
            except Boom:
                ctx.count("C10.aborted_export_then_reuse")
            log.append(["abort", s, victim])
        exporter.dictcls = kw.get("dictcls", dict)
        exporter.attriter = kw.get("attriter", None)
        exporter.childiter = kw.get("childiter", list)
        exporter.maxlevel = ml
        log.append([oname, s, ml])
        ctx.count("C10.exporter_reused")
        ctx.count("mon.C10.export")
        exp = ref_export(recorded, ch, s, ml, attr_fn, child_fn, dictcls)
        try:
            got = exporter.export(nodes[s])
        except BaseException as e:  # noqa: B902 - e.g. a callback of an earlier configuration still being used
            if type(e).__name__ == "CaseTimeout":
                raise
            ctx.violation("C10/export/reused-exporter-raises", "independent-serialiser", dict(case, reuse_log=log), expected=repr(exp)[:800], observed=repr(e)[:300])
            return False
        if not deep_eq(got, exp):
            ctx.violation("C10/export/reused-exporter", "independent-serialiser", dict(case, reuse_log=log), expected=repr(exp)[:800], observed=repr(got)[:800])
            return False
    return True


def with_empty_children(rng, d):
    out = dict((k, v) for k, v in d.items() if k != "children")
    kids = [with_empty_children(rng, c) for c in d.get("children", [])]
    if kids:
        out["children"] = kids
    elif rng.random() < 0.5:
        out["children"] = []
    return out


def check_all(ctx, lib, rng, par, attrs, kind, case, starts, mls, opts_idx=None):
    from anytree import AnyNode, Node
    from anytree.exporter import DictExporter

    nodes, recorded = build(lib, par, attrs, kind)
    if case.get("used", len(par) % 2 == 0) and len(par) <= 10:
        # a tree with a past: the read-only APIs (navigation, iterators, resolver, ...) were used on it before the export;
        # whatever they leave in the node objects is not an attribute of the node
        from .. import battery as B

        ctx.count("C10.tree_used_before_export")
        B.battery(nodes, level=0)
        case = dict(case, used=True)
    ch = gen.children_of(par)
    idmap = {id(o): i for i, o in enumerate(nodes)}
    opts = option_sets(idmap)
    nodecls = {"AnyNode": AnyNode, "Node": Node}.get(kind) or type(nodes[0])
    for s in starts:
        for ml in mls(s):
            for oi, opt in enumerate(opts):
                if opts_idx is not None and oi not in opts_idx:
                    continue
                ctx.case((tuple(par), kind, s, ml, opt[0], repr(attrs)[:60]), sample=dict(case, start=s, maxlevel=ml, options=opt[0]) if ctx.evals % 5003 == 0 else None)
                got = check_export(ctx, lib, nodes, recorded, ch, s, ml, opt, case)
                if got is None:
                    return False
                if opt[0] in ("default", "ordered-sorted", "rev-children"):
                    # round trip: import what was exported, export again
                    ctx.count("mon.C10.roundtrip")
                    root = check_import(ctx, lib, got, nodecls, kind, dict(case, start=s, maxlevel=ml, options=opt[0]))
                    if root is None:
                        return False
                    again = DictExporter(dictcls=type(got)).export(root)
                    # key order may differ for Node (name is set last): compare as plain dicts
                    if not deep_eq(_plain(again), _plain(got)):
                        ctx.violation("C10/roundtrip/export-import-export", "roundtrip", dict(case, start=s, maxlevel=ml, options=opt[0]), expected=repr(got)[:500], observed=repr(again)[:500])
                        return False
    ctx.case((tuple(par), kind, "reuse", repr(attrs)[:60]))
    if not check_reuse(ctx, lib, rng, nodes, recorded, ch, opts, case):
        return False
    # export(import_(d)) == d up to empty children lists
    d = ref_export(recorded, ch, 0, None, None, None, dict)
    d2 = with_empty_children(rng, d)
    if d2 != d:
        ctx.count("C10.empty_children_input")
    for clsname, cls in (("default", AnyNode), (kind, nodecls)):
        if kind == "Node" and clsname == "default":
            continue
        root = check_import(ctx, lib, d2, cls, clsname, dict(case, input="with-empty-children"))
        if root is None:
            return False
        ctx.count("mon.C10.roundtrip")
        back = DictExporter().export(root)
        if not deep_eq(_plain(back), _plain(strip_empty_children(d2))):
            ctx.violation("C10/roundtrip/import-export", "roundtrip", dict(case, nodecls=clsname), expected=repr(strip_empty_children(d2))[:500], observed=repr(back)[:500])
            return False
    return True


def _plain(d):
    """dict with sorted keys (order-insensitive comparison), recursively."""
    if isinstance(d, dict):
        return {k: _plain(d[k]) for k in sorted(d, key=repr)}
    if isinstance(d, list):
        return [_plain(x) for x in d]
    return d


def small_attrs(rng, n, json_only=False):
    out = []
    for i in range(n):
        r = rng.random()
        if r < 0.2:
            out.append({})
        elif r < 0.6:
            out.append({"a": i, "b": "v%d" % i})
        else:
            out.append(gen.random_attrs(rng, json_only=json_only, maxkeys=5))
    return out


def run(ctx):
    from ..common import lib as getlib

    lib = getlib()
    T = ctx.tier == "thorough"
    nmax = 8 if T else 6
    idx = 0
    kinds = ("AnyNode", "Node", "User", "Falsy", "Light")
    for n in range(1, nmax + 1):
        for par in gen.ordered_trees(n):
            idx += 1
            if not ctx.mine(idx):
                continue
            rng = ctx.rng("attrs", idx)
            ch = gen.children_of(par)
            for kind in kinds if n <= 5 else (kinds[idx % len(kinds)],):
                attrs = small_attrs(rng, n)
                case = {"par": list(par), "kind": kind, "attrs_repr": repr(attrs)}
                check_all(ctx, lib, rng, par, attrs, kind, case, range(n), lambda s: [None] + list(range(0, R.height(ch, s) + 2)))
        ctx.exhaustive.append("all ordered trees with %d nodes x every start x maxlevel None,0..h+1 x 10 option sets%s" % (n, " x 3 node classes" if n <= 5 else ""))
    nrand = (60000 if T else 480) // ctx.nshards + 1
    for r in range(nrand):
        rng = ctx.rng("rand", r)
        n = rng.randint(1, 25)
        par, _ = gen.random_tree(rng, n)
        ch = gen.children_of(par)
        kind = kinds[r % len(kinds)]
        attrs = [gen.random_attrs(rng, json_only=False, maxkeys=6) for _ in range(n)]
        case = {"par": list(par), "kind": kind, "attrs_repr": repr(attrs)}
        s = rng.choice([0, rng.randrange(n)])
        check_all(ctx, lib, rng, par, attrs, kind, case, [0, s], lambda s: [None, rng.choice([0, 1, 2, 3])])


def replay(ctx, wit):
    from ..common import lib as getlib
    import random

    lib = getlib()
    c = wit["case"]
    ctx.case(("replay",))
    par = c["par"]
    ch = gen.children_of(par)
    attrs = eval(c["attrs_repr"], {"frozenset": frozenset, "inf": float("inf"), "nan": float("nan")})  # our own generated literals
    check_all(ctx, lib, random.Random(0), par, attrs, c["kind"], c, range(len(par)), lambda s: [None] + list(range(0, R.height(ch, s) + 2)))
