"""C15 - Walker.walk returns the unique tree path between two nodes."""
from .. import gen
from .. import ref as R

LEVEL = "exploration"
TECHNIQUE = "walk triples compared by identity with path arithmetic on independently computed ancestor chains (LCA), link and mirror checks; all ordered pairs on all small trees"
RULE = (
    "case = (family, tree/forest, ordered node pair); all ordered pairs in all ordered trees up to n nodes, random trees up to 60 nodes (all pairs "
    "or 300 sampled), cross-tree pairs in all forests up to 4 nodes; distinct = hash of (shape, pair); trivial = start is end"
)
ASSUMPTIONS = []
GATES = ["mon.C15.walk", "C15.cross_tree", "C15.ancestor_pair", "C15.cousins_equal_depth", "C15.root_involved", "C15.same_node", "C15.after_mutation"]


def plan(tier, seed, jobs):
    n = max(2, min(16, jobs))
    return [{"assertions": i % 2, "shard": i, "nshards": n} for i in range(n)]


def check_pair(ctx, nodes, idmap, par, a, b, case):
    from anytree import Walker
    from anytree.walker import WalkError

    ctx.count("mon.C15.walk")
    exp = R.walk(par, a, b)
    try:
        got = Walker.walk(nodes[a], nodes[b]) if (a + b) % 2 else Walker().walk(nodes[a], nodes[b])
    except BaseException as e:  # noqa: B902
        if exp is None and type(e) is WalkError:
            ctx.count("C15.cross_tree")
            return True
        ctx.violation("C15/exception/%s" % type(e).__name__, "walk", dict(case, start=a, end=b), expected=exp, observed=repr(e)[:200])
        return False
    if exp is None:
        ctx.violation("C15/no-walkerror", "walk", dict(case, start=a, end=b), expected="WalkError", observed=repr(got)[:200])
        return False
    up, lca, down = exp
    if a == b:
        ctx.count("C15.same_node")
    elif lca in (a, b):
        ctx.count("C15.ancestor_pair")
    elif len(up) == len(down):
        ctx.count("C15.cousins_equal_depth")
    if par[a] is None or par[b] is None:
        ctx.count("C15.root_involved")
    ok = type(got) is tuple and len(got) == 3 and type(got[0]) is tuple and type(got[2]) is tuple
    if ok:
        obs = ([idmap.get(id(x), "?") for x in got[0]], idmap.get(id(got[1]), "?"), [idmap.get(id(x), "?") for x in got[2]])
        ok = obs == (up, lca, down)
    else:
        obs = repr(got)[:200]
    if not ok:
        ctx.violation("C15/triple", "lca-path-arithmetic", dict(case, start=a, end=b), expected=[up, lca, down], observed=obs)
        return False
    # structural re-statement on the real objects: consecutive elements linked, simple path
    seq = list(got[0]) + [got[1]] + list(got[2])
    for x, y in zip(got[0], list(got[0][1:]) + [got[1]]):
        if x.parent is not y:
            ctx.violation("C15/links-up", "walk-links", dict(case, start=a, end=b), expected="each upwards node is the child of the next", observed=obs)
            return False
    for x, y in zip([got[1]] + list(got[2]), got[2]):
        if y.parent is not x:
            ctx.violation("C15/links-down", "walk-links", dict(case, start=a, end=b), expected="each downwards node is the child of the previous", observed=obs)
            return False
    if seq[0] is not nodes[a] or seq[-1] is not nodes[b] or len({id(x) for x in seq}) != len(seq):
        ctx.violation("C15/simple-path", "walk-links", dict(case, start=a, end=b), expected="simple path from start to end", observed=obs)
        return False
    # mirror
    back = Walker.walk(nodes[b], nodes[a])
    mir = ([idmap.get(id(x), "?") for x in back[0]], idmap.get(id(back[1]), "?"), [idmap.get(id(x), "?") for x in back[2]])
    if mir != (list(reversed(down)), lca, list(reversed(up))):
        ctx.violation("C15/mirror", "walk-mirror", dict(case, start=a, end=b), expected=[list(reversed(down)), lca, list(reversed(up))], observed=mir)
        return False
    return True


def check_universe(ctx, nodes, par, case, pairs=None, key=None):
    idmap = {id(o): i for i, o in enumerate(nodes)}
    n = len(nodes)
    for a, b in pairs if pairs is not None else ((a, b) for a in range(n) for b in range(n)):
        ctx.case((key, a, b), nontrivial=a != b, sample=dict(case, start=a, end=b) if ctx.evals % 9973 == 0 else None)
        if not check_pair(ctx, nodes, idmap, par, a, b, case):
            return False
    return True


def run(ctx):
    from .. import trees as TR

    T = ctx.tier == "thorough"
    fams = TR.READ_FAMILIES + ("BARE",)
    nmax = 10 if T else 8
    idx = 0
    for n in range(1, nmax + 1):
        for par in gen.ordered_trees(n):
            idx += 1
            if not ctx.mine(idx):
                continue
            fam = fams[idx % len(fams)]
            check_universe(ctx, TR.build(par, fam), list(par), {"family": fam, "par": list(par)}, key=(fam, par))
        ctx.exhaustive.append("all ordered trees with %d nodes x all ordered node pairs" % n)
    for k in (2, 3, 4):
        for ch in gen.ordered_forests(k):
            idx += 1
            if not ctx.mine(idx):
                continue
            fam = fams[idx % len(fams)]
            nm = None
            if idx % 3 == 0:
                fam = "Node"
                nm = ([(), ("x",), ("a", "b", "c")][idx % 3:] + [("n", i) for i in range(k)])[:k]  # non-string names (tuples) show in error messages
            check_universe(ctx, TR.build_ch(ch, fam, nm), gen.parents_of(ch), {"family": fam, "state": [list(c) for c in ch], "tuple_names": nm is not None}, key=(fam, ch, nm is not None))
    nrand = (40000 if T else 320) // ctx.nshards + 1
    for r in range(nrand):
        rng = ctx.rng("rand", r)
        n = rng.randint(9, 60)
        kind = None
        if r % 5 == 1:
            kind, n = "spinebush", rng.randint(45, 120)
        par, kind = gen.random_tree(rng, n, kind)
        fam = fams[r % len(fams)]
        pairs = None if n <= 25 else [(rng.randrange(n), rng.randrange(n)) for _ in range(300)]
        check_universe(ctx, TR.build(par, fam), list(par), {"family": fam, "par": list(par), "kind": kind}, pairs, key=(fam, par))
    # very deep chains: walk only needs the (iterative) root paths, so depth far beyond the other checks' bound is legal
    if ctx.shard in (0, 1, 2, 3):
        rng = ctx.rng("deepchain")
        fam = ("Node", "LM", "NM", "AnyNode")[ctx.shard]
        n = 1500  # deeper than the interpreter's default recursion limit
        par = tuple([None] + list(range(n - 1)))
        nodes = TR.build(par, fam)
        pairs = [(n - 1, 0), (0, n - 1), (n - 1, n - 1), (n - 2, 5), (400, 650), (1400, 1450), (n - 1, n - 2)] + [(rng.randrange(n), rng.randrange(n)) for _ in range(10)]
        ctx.count("C15.very_deep_chain")
        check_universe(ctx, nodes, list(par), {"family": fam, "par": "chain(%d)" % n}, pairs, key=(fam, "deepchain"))
    histories(ctx)


def histories(ctx):
    """The same pairs are walked again on the same node objects after every step of a mutation history."""
    from .. import trees as TR

    T = ctx.tier == "thorough"
    nh = (30000 if T else 240) // ctx.nshards + 1
    for h in range(nh):
        rng = ctx.rng("hist", h)
        fam = TR.READ_FAMILIES[h % len(TR.READ_FAMILIES)]
        k = rng.randint(4, 9)
        fixed = [(rng.randrange(k), rng.randrange(k)) for _ in range(6)]
        for nodes, par, ch, case in TR.evolving_universe(ctx, rng, fam, k, rng.randint(4, 20), fault_rate=(0.3 if h % 2 else 0.0)):
            ctx.count("C15.after_mutation")
            pairs = fixed + [(rng.randrange(k), rng.randrange(k)) for _ in range(4)]
            if not check_universe(ctx, nodes, par, dict(case, pairs=[list(x) for x in pairs]), pairs, key=("hist", h, len(case["history"]))):
                break


def replay(ctx, wit):
    if "history" in wit["case"]:
        from .. import trees as TR

        c = wit["case"]
        ctx.case(("replay",))
        for nodes, par, ch in TR.replay_universe(c):
            check_universe(ctx, nodes, par, c, [tuple(x) for x in c.get("pairs", [])] or None, key="replay")
        return
    _replay_static(ctx, wit)


def _replay_static(ctx, wit):
    from .. import trees as TR
    from .forest_engine import tup

    c = wit["case"]
    if "par" in c:
        nodes, par = TR.build(c["par"], c["family"]), c["par"]
    else:
        ch = tup(c["state"])
        nodes, par = TR.build_ch(ch, c["family"], [("n", i) for i in range(len(ch))] if c.get("tuple_names") else None), gen.parents_of(ch)
    check_universe(ctx, nodes, par, c, [(c["start"], c["end"])] if "start" in c else None, key="replay")
