"""C03 - a refused or hook-vetoed structural change leaves the whole forest untouched."""
from . import forest_engine as E

LEVEL = "fault_enumeration"
TECHNIQUE = "pre/post snapshot monitor on every raising call under exhaustive pre-hook fault enumeration; known mechanisms recognised by exact predicted defective state"
RULE = (
    "case = (family, assertion mode, forest state, call, fault plan); same enumeration as C01; the monitor evaluates every call that "
    "raised because it is invalid or because only pre-hooks raised; distinct = hash of the case tuple"
)
ASSUMPTIONS = [
    "known findings are recognised only when mechanism, exception class and complete post-state equal the prediction of the as-implemented simulator",
    "post-hook faults are outside this property (C01/C16 judge them)",
]
GATES = [
    "mon.C03.deep_chain", "mon.C03.wide_node", "mon.C03.mixed_mixins",
    "mon.C03.unchanged", "C03.refusal.TreeError", "C03.refusal.LoopError", "C03.refusal.TypeError",
    "C03.unchanged_ok.veto.pre_detach", "C03.unchanged_ok.veto.pre_attach", "C03.unchanged_ok.veto.pre_detach_children",
    "C03.unchanged_ok.veto.pre_attach_children", "C03.veto.setparent", "C03.veto.setchildren", "C03.veto.delchildren",
]
MONITORS = ("C03",)


def plan(tier, seed, jobs):
    return E.plan_shards(tier, seed, jobs)


def run(ctx):
    from . import deepchain

    deepchain.run(ctx, "C03")
    from . import widenode

    widenode.run(ctx, "C03")
    E.Engine(ctx, MONITORS, faults=True).run()


def replay(ctx, wit):
    if wit.get("case", {}).get("wide_node"):
        from . import widenode

        ctx.case(("replay",))
        return widenode.run(ctx, "C03")
    if wit.get("case", {}).get("deep_chain"):
        from . import deepchain

        ctx.case(("replay",))
        return deepchain.run(ctx, "C03")
    E.replay(ctx, wit, MONITORS)
