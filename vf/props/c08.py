"""C08 - Resolver.glob returns exactly the nodes a wildcard pattern denotes."""
import itertools

from .. import gen
from .. import ref as R
from .. import refresolve as RR
from .c07 import KINDS, build, observe

LEVEL = "exploration"
TECHNIQUE = "Resolver.glob results compared with a set-semantics reference (DP wildcard matcher) incl. order/duplicate clauses, strict-vs-relaxed and get agreement; every query replayed inside different call histories to monitor cache transparency"
RULE = (
    "case = (node class/separator, named tree, start, pattern, ignorecase, relax, cache history kind); exhaustive: all patterns of <=3 components over "
    "{a,b,*,?,a*,**,..,zz,.} relative and absolute on all trees <=4 nodes x name assignments; random: named trees <=12 nodes with hostile names "
    "(regex metacharacters, newlines, literal * and ?) x drawn patterns; cache histories: plain, after a burst of >20 other patterns (eviction), right "
    "after the same pattern through a resolver with the opposite ignorecase; distinct = hash of the query; trivial = empty pattern"
)
ASSUMPTIONS = [
    "'**' is not generated as the root component of an absolute pattern (the statement does not say whether it is a name pattern there)",
    "strict mode is judged on sibling-unique names only (duplicates among siblings are quantified for relaxed mode)",
    "the oracle never reads Resolver._match_cache; its length is sampled only to report evictions",
]
GATES = ["C08.wide_node", "mon.C08.relaxed", "mon.C08.strict", "mon.C08.get_agreement", "mon.C08.history", "C08.strict_raised", "C08.strict_returned_with_dead_end_free",
         "C08.metachar_name", "C08.order_clause", "C08.dup_clause", "C08.cache_evictions_forced", "C08.opposite_ic_first", "C08.starstar", "C08.duplicate_sibling_names", "C08.after_mutation", "C08.option_attributes_reassigned", "C08.falsy_nodes"]


def plan(tier, seed, jobs):
    n = max(2, min(16, jobs))
    return [{"assertions": i % 2, "shard": i, "nshards": n} for i in range(n)]


_BURST = {"n": 0}


def burst(lib, rng_tag):
    """>20 distinct other patterns through the shared cache (forces eviction)."""
    from anytree import Node

    top = Node("q")
    Node("qa", parent=top)
    _BURST["n"] += 1
    base = _BURST["n"]
    before = len(getattr(lib.Resolver, "_match_cache", ()) or ())
    shrunk = False
    for i in range(23):
        r = lib.Resolver("name", ignorecase=bool(i % 2), relax=True)
        r.glob(top, "q%d_%d*" % (base, i))
        now = len(getattr(lib.Resolver, "_match_cache", ()) or ())
        if now < before:
            shrunk = True
        before = now
    return shrunk


def idlist(idmap, xs):
    return [idmap.get(id(x), "?") for x in xs]


def check_glob(ctx, lib, nodes, idmap, par, ch, names, start, pattern, sep, ic, case, unique, history="plain", pathattr="name", resolvers=None):
    snames = [str(x) for x in names]
    ref = RR.ref_glob(par, ch, snames, start, pattern, sep, ic)
    cfg = dict(case, start=start, pattern=pattern, ignorecase=ic, history=history)
    single = None
    if resolvers is not None and not isinstance(resolvers, dict):
        # one long-lived object whose public option attributes are reassigned before every use
        single = resolvers
        rr = rs = single
    else:
        rr = resolvers[(ic, True)] if resolvers else lib.Resolver(pathattr, ignorecase=ic, relax=True)
        rs = resolvers[(ic, False)] if resolvers else lib.Resolver(pathattr, ignorecase=ic, relax=False)
    if history == "burst":
        ctx.count("mon.C08.history")
        if burst(lib, pattern):
            ctx.count("C08.cache_evictions_forced")
    elif history == "opposite":
        ctx.count("mon.C08.history")
        ctx.count("C08.opposite_ic_first")
        observe(lib.Resolver(pathattr, ignorecase=not ic, relax=True).glob, nodes[start], pattern)
    if "**" in pattern.split(sep):
        ctx.count("C08.starstar")
    # ---- (1) relaxed
    ctx.count("mon.C08.relaxed")
    if single is not None:
        single.ignorecase, single.relax = ic, True
        ctx.count("C08.option_attributes_reassigned")
    o = observe(rr.glob, nodes[start], pattern)
    if o[0] != "ret" or type(o[1]) is not list:
        ctx.violation("C08/relaxed/%s" % (o[1] if o[0] == "exc" else "not-a-list"), "relaxed-never-raises", dict(cfg, relax=True), expected=sorted(ref["set"]),
                      observed=("exc", o[1]) if o[0] == "exc" else repr(o[1])[:100])
        return False
    got = idlist(idmap, o[1])
    if set(got) != ref["set"]:
        ctx.violation("C08/relaxed/set", "reference-set", dict(cfg, relax=True), expected=sorted(ref["set"]), observed=got)
        return False
    if not RR.has_special(pattern, sep):
        ctx.count("C08.order_clause")
        root = RR.root_of(par, start)
        rank = {x: i for i, x in enumerate(R.preorder_iter(ch, root))}
        if [rank[x] for x in got] != sorted(rank[x] for x in got):
            ctx.violation("C08/relaxed/order", "pre-order-clause", dict(cfg, relax=True), expected=sorted(got, key=rank.get), observed=got)
            return False
    if not RR.has_dotdot_after_name(pattern, sep):
        ctx.count("C08.dup_clause")
        if len(set(got)) != len(got):
            ctx.violation("C08/relaxed/duplicates", "no-duplicates-clause", dict(cfg, relax=True), expected=sorted(set(got)), observed=got)
            return False
    if not unique:
        ctx.count("C08.duplicate_sibling_names")
        return True
    # ---- (2) strict
    ctx.count("mon.C08.strict")
    if single is not None:
        single.ignorecase, single.relax = ic, False
    s = observe(rs.glob, nodes[start], pattern)
    if s[0] == "ret":
        if not ref["dead_end"]:
            ctx.count("C08.strict_returned_with_dead_end_free")
        if type(s[1]) is not list or idlist(idmap, s[1]) != got:
            ctx.violation("C08/strict/differs-from-relaxed", "strict-equals-relaxed", dict(cfg, relax=False), expected=got,
                          observed=idlist(idmap, s[1]) if type(s[1]) is list else repr(s[1])[:100])
            return False
    else:
        ctx.count("C08.strict_raised")
        if not issubclass(s[2], lib.ResolverError):
            ctx.violation("C08/strict/%s" % s[1], "strict-error-class", dict(cfg, relax=False), expected="list or ResolverError", observed=s[1])
            return False
        if not ref["dead_end"]:
            ctx.violation("C08/strict/raises-without-dead-end/%s" % s[1], "strict-raises-only-on-dead-end", dict(cfg, relax=False), expected=got, observed=("exc", s[1]))
            return False
    # ---- (3) agreement with get on wildcard-free patterns
    if not RR.is_wild(pattern):
        ctx.count("mon.C08.get_agreement")
        g = observe(rs.get, nodes[start], pattern)
        if g[0] == "ret":
            good = s[0] == "ret" and len(s[1]) >= 1 and s[1][0] is g[1]
        else:
            good = s[0] == "exc" and s[2] is g[2]
        if not good:
            ctx.violation("C08/get-agreement", "glob-agrees-with-get", dict(cfg, relax=False),
                          expected=("node", idmap.get(id(g[1]))) if g[0] == "ret" else ("exc", g[1]),
                          observed=idlist(idmap, s[1]) if s[0] == "ret" else ("exc", s[1]))
            return False
    return True


def sibling_unique(ch, par, names, ic):
    groups = [list(c) for c in ch]
    for grp in groups:
        ks = [RR.norm(str(names[i]), ic) for i in grp]
        if len(set(ks)) != len(ks):
            return False
    return True


def patterns_for(rng, snames, sep, n_abs_from):
    pool = list(snames) + ["*", "*", "?", "??", "**", "**", "..", "..", ".", "", "nope", "*.*", "[a]*", "a*", "*b", "?*", "*?", "?*?", "a?*", "??*", "*??"]
    for nm in snames[:6]:
        if len(nm) >= 1:
            i = rng.randrange(len(nm))
            pool.append(nm[:i] + "?" + nm[i + 1:])
            pool.append(nm[:i] + "*")
            pool.append("*" + nm[i:])
            pool.append(nm[:i] + "*" + nm[i + 1:])
            pool.append(nm.swapcase())
            pool.append(nm + "?")
            pool.append(nm[:-1])
    pool = [p for p in pool if not any(c in p for c in sep)]
    ln = rng.randint(0, 4)
    comps = [rng.choice(pool) for _ in range(ln)]
    p = sep.join(comps)
    form = rng.random()
    if form < 0.2:
        p = n_abs_from() + (sep + p if p else "")
    elif form < 0.3 and (not comps or comps[0] != "**"):
        p = sep + p
    elif form < 0.35:
        p = p + sep
    return p


def run(ctx):
    from ..common import lib as getlib

    lib = getlib()
    T = ctx.tier == "thorough"
    idx = 0
    hkinds = ("plain", "burst", "opposite")
    alphabet = ["a", "b", "*", "?", "a*", "a?*", "**", "..", "zz", "."]
    pats = []
    for ln in (1, 2, 3):
        for comps in itertools.product(alphabet, repeat=ln):
            pats.append("/".join(comps))
            if comps[0] != "**":
                pats.append("/" + "/".join(comps))
    for comps in itertools.product(["a", "*", "**", ".."], repeat=4):
        pats.append("/".join(comps))
    pats = sorted(set(pats)) + ["", "/", "//"]
    for n in (1, 2, 3, 4):
        for par in gen.ordered_trees(n):
            ch = gen.children_of(par)
            rng = ctx.rng("names", n, par)
            assigns = set()
            for _ in range(5 if T else 3):
                assigns.add(tuple(rng.choice(["a", "b", "ab", "A", "a"]) for _ in range(n)))
            for names in sorted(assigns):
                idx += 1
                if not ctx.mine(idx):
                    continue
                kind = KINDS[idx % len(KINDS)]
                nodes = build(par, list(names), kind)
                idmap = {id(o): i for i, o in enumerate(nodes)}
                case = {"kind": kind, "sep": "/", "par": list(par), "names": list(names)}
                for ic in (False, True):
                    uniq = sibling_unique(ch, par, names, ic)
                    for s in range(n):
                        for pi, p in enumerate(pats):
                            hk = "plain" if (pi + s) % 29 else hkinds[(pi // 29) % 3]
                            ctx.case((par, names, s, p, ic, hk), nontrivial=p != "", sample=dict(case, start=s, pattern=p, ignorecase=ic, history=hk) if ctx.evals % 30011 == 0 else None)
                            check_glob(ctx, lib, nodes, idmap, par, ch, names, s, p, "/", ic, case, uniq, hk)
    ctx.exhaustive.append("all %d patterns of <=3 components over {a,b,*,?,a*,**,..,zz,.} (relative and absolute) and of 4 components over {a,*,**,..} x every start x all trees <=4 nodes x name assignments x ignorecase" % len(pats))
    # ---- random
    nrand = (150000 if T else 2400) // ctx.nshards + 1
    seps = ["/", "|", "::", "\\", "->", "#", "/"]
    for r in range(nrand):
        rng = ctx.rng("rand", r)
        n = rng.randint(1, 12)
        wide = r % 35 == 10 or r % 37 == 6  # nodes with more children than any index / fast-path threshold
        if wide:
            n = rng.choice((20, 30, 45))
            ctx.count("C08.wide_node")
        par, _ = gen.random_tree(rng, n, rng.choice(("star", "broom", "star")) if wide else None)
        ch = gen.children_of(par)
        sep = seps[r % len(seps)]
        ic = bool(r % 2)
        kind = KINDS[(r // 2) % len(KINDS)]
        if kind.startswith("Falsy"):
            ctx.count("C08.falsy_nodes")
        if r % 5 == 0:
            names = [rng.choice(["a", "b", "a.b", "a+", "ab", "A", "x\ny", "a*", "a?"]) for _ in range(n)]  # duplicates among siblings likely
        else:
            names = gen.unique_sibling_names(rng, ch, sep=sep, hostile=True, ignorecase=ic, wild=(r % 3 == 0))
            if r % 7 == 0:
                names = [x + rng.choice(["\n", "\nz", ""]) for x in names]
        if any(any(c in x for c in sep) for x in names):
            continue
        if r % 11 == 5 and kind in ("Node", "AnyNode") and sep not in "(),' ":
            names = [("t%d" % i,) if i % 2 else ("t", i) for i in range(n)]  # non-string names: compared as str(value), shown in error messages
            ctx.count("C08.tuple_valued_names")
        uniq = sibling_unique(ch, par, names, ic)
        if any(any(c in str(x) for c in ".+[](){}^$|\\") for x in names):
            ctx.count("C08.metachar_name")
        nodes = build(par, names, kind, sep)
        idmap = {id(o): i for i, o in enumerate(nodes)}
        snames = [str(x) for x in names]
        case = {"kind": kind, "sep": sep, "par": list(par), "names": names}
        for q in range(30):
            p = patterns_for(rng, snames, sep, lambda: RR.abs_path(par, snames, rng.randrange(n), sep))
            s = rng.randrange(n)
            hk = hkinds[q % 3] if q % 4 == 0 else "plain"
            ctx.case((r, s, p, ic, hk), nontrivial=p != "", sample=dict(case, start=s, pattern=p, ignorecase=ic, history=hk) if (r * 30 + q) % 4001 == 0 else None)
            check_glob(ctx, lib, nodes, idmap, par, ch, names, s, p, sep, ic, case, uniq, hk)
    # ---- explicit cache histories: the same query inside many different call sequences
    nh = (20000 if T else 300) // ctx.nshards + 1
    for h in range(nh):
        rng = ctx.rng("hist", h)
        n = rng.randint(2, 8)
        par, _ = gen.random_tree(rng, n)
        ch = gen.children_of(par)
        names = gen.unique_sibling_names(rng, ch, sep="/", hostile=False, ignorecase=True)
        nodes = build(par, names, "Node", "/")
        idmap = {id(o): i for i, o in enumerate(nodes)}
        snames = [str(x) for x in names]
        case = {"kind": "Node", "sep": "/", "par": list(par), "names": names, "history_seed": h}
        queries = []
        for _ in range(rng.randint(5, 60)):
            p = patterns_for(rng, snames, "/", lambda: RR.abs_path(par, snames, rng.randrange(n), "/"))
            if rng.random() < 0.5:
                p = p.swapcase()
            queries.append((rng.randrange(n), p, rng.random() < 0.5))
        # interleave: every query twice with flipped ignorecase in between, random repeats
        seq = []
        for s, p, ic in queries:
            seq.append((s, p, ic))
            if rng.random() < 0.5:
                seq.append((s, p, not ic))
            if rng.random() < 0.3:
                seq.append(rng.choice(queries))
        for s, p, ic in seq:
            ctx.count("mon.C08.history")
            ctx.case(("hist", h, s, p, ic), nontrivial=True)
            hk = "burst" if rng.random() < 0.1 else "plain"
            if not check_glob(ctx, lib, nodes, idmap, par, ch, names, s, p, "/", ic, case, True, hk):
                break
    mutation_histories(ctx, lib)


def mutation_histories(ctx, lib):
    """Long-lived Resolver objects (and the shared pattern cache) are reused while the tree is renamed and
    restructured between glob calls."""
    from .. import trees as TR

    T = ctx.tier == "thorough"
    nh = (20000 if T else 200) // ctx.nshards + 1
    pool = ["a", "b", "A", "ab", "a.b", "c", "n1", "a+"]
    for h in range(nh):
        rng = ctx.rng("mhist", h)
        k = rng.randint(3, 8)
        res = {(ic, relax): lib.Resolver("name", ignorecase=ic, relax=relax) for ic in (False, True) for relax in (False, True)}
        if h % 3 == 0:
            res = lib.Resolver("name")
        names = None
        renames = []
        hfam = ("Node", "LM", "NM", "Node")[h % 4]
        for nodes, par, ch, case in TR.evolving_universe(ctx, rng, hfam, k, rng.randint(4, 14), fault_rate=(0.3 if h % 2 else 0.0)):
            if names is None:
                names = [n.name for n in nodes]
            for _ in range(rng.randint(0, 2)):
                i = rng.randrange(k)
                new = rng.choice(pool)
                names[i] = new
                nodes[i].name = new
                renames.append([len(case["history"]), "set", i, new])
            ctx.count("C08.after_mutation")
            idmap = {id(o): i for i, o in enumerate(nodes)}
            c2 = dict(case, kind="hist", sep="/", names=list(names), renames=[list(x) for x in renames], single_resolver=not isinstance(res, dict))
            for q in range(8):
                s = rng.randrange(k)
                p = patterns_for(rng, names, "/", lambda: RR.abs_path(par, names, rng.randrange(k), "/"))
                for ic in (False, True):
                    ctx.case(("mhist", h, len(case["history"]), q, ic), nontrivial=True)
                    if not check_glob(ctx, lib, nodes, idmap, par, ch, names, s, p, "/", ic, c2, sibling_unique(ch, par, names, ic), "plain", resolvers=res):
                        return


def replay(ctx, wit):
    if "history" in wit["case"] and "renames" in wit["case"]:
        return replay_history(ctx, wit)
    _replay_static(ctx, wit)


def replay_history(ctx, wit):
    from .. import trees as TR
    from ..common import lib as getlib

    lib = getlib()
    c = wit["case"]
    ctx.case(("replay",))
    res = {(ic, relax): lib.Resolver("name", ignorecase=ic, relax=relax) for ic in (False, True) for relax in (False, True)}
    if c.get("single_resolver"):
        res = lib.Resolver("name")
    names = None
    for step, (nodes, par, ch) in enumerate(TR.replay_universe(c)):
        if names is None:
            names = [n.name for n in nodes]
        for st, what, i, x in c.get("renames", []):
            if st == step:
                names[i] = x
                nodes[i].name = x
        idmap = {id(o): i for i, o in enumerate(nodes)}
        for p in [c.get("pattern", "*"), "*", "**", "*/*"]:
            for s in range(len(nodes)):
                for ic in (False, True):
                    check_glob(ctx, lib, nodes, idmap, par, ch, names, s, p, "/", ic, c, sibling_unique(ch, par, names, ic), "plain", resolvers=res)


def _replay_static(ctx, wit):
    from ..common import lib as getlib

    lib = getlib()
    c = wit["case"]
    par, names = c["par"], c["names"]
    nodes = build(par, names, c["kind"], c["sep"])
    idmap = {id(o): i for i, o in enumerate(nodes)}
    ch = gen.children_of(par)
    ctx.case(("replay",))
    for hk in ("opposite", "plain", "burst", c.get("history", "plain")):
        check_glob(ctx, lib, nodes, idmap, par, ch, names, c["start"], c["pattern"], c["sep"], c["ignorecase"], c, sibling_unique(ch, par, names, c["ignorecase"]), hk)
