"""Reference interpreter for Resolver.get / Resolver.glob, written from the
statements of C07 / C08 (set semantics, DP wildcard matcher; no regex)."""


def is_wild(p):
    return "*" in p or "?" in p


def norm(s, ignorecase):
    return s.upper() if ignorecase else s


def wild_match(name, pat, ignorecase=False):
    """'*' any run, '?' exactly one char, everything else itself; anchored."""
    name = norm(name, ignorecase)
    pat = norm(pat, ignorecase)
    n, m = len(name), len(pat)
    # dp[j]: pat[:i] matches name[:j]
    dp = [True] + [False] * n
    for i in range(1, m + 1):
        pc = pat[i - 1]
        new = [False] * (n + 1)
        if pc == "*":
            new[0] = dp[0]
            for j in range(1, n + 1):
                new[j] = dp[j] or new[j - 1]
        else:
            for j in range(1, n + 1):
                new[j] = dp[j - 1] and (pc == "?" or pc == name[j - 1])
        dp = new
    return dp[n]


def root_of(par, n):
    while par[n] is not None:
        n = par[n]
    return n


def split(path, sep):
    return path.split(sep)


def ref_get(par, ch, names, start, path, sep, ignorecase=False):
    """('node', label) or ('err', 'ResolverError'|'RootResolverError'|'ChildResolverError')."""
    parts = split(path, sep)
    node = start
    if path.startswith(sep):
        node = root_of(par, start)
        parts = parts[1:]
        if parts[0] == "":
            return ("err", "ResolverError")
        if norm(names[node], ignorecase) != norm(parts[0], ignorecase):
            return ("err", "ResolverError")
        parts = parts[1:]
    for part in parts:
        if part == "..":
            if par[node] is None:
                return ("err", "RootResolverError")
            node = par[node]
        elif part in ("", "."):
            continue
        else:
            for c in ch[node]:
                if norm(names[c], ignorecase) == norm(part, ignorecase):
                    node = c
                    break
            else:
                return ("err", "ChildResolverError")
    return ("node", node)


def subtree(ch, n):
    out = []
    stack = [n]
    while stack:
        x = stack.pop()
        out.append(x)
        stack.extend(reversed(ch[x]))
    return out


def ref_glob(par, ch, names, start, pattern, sep, ignorecase=False):
    """Returns dict: set (reachable labels), dead_end (bool: a literal / root /
    '..' step failed somewhere in the exploration), root_fail (bool)."""
    parts = split(pattern, sep)
    frontier = {start}
    dead = False
    if pattern.startswith(sep):
        r = root_of(par, start)
        parts = parts[1:]
        if parts[0] == "" or not wild_match(names[r], parts[0], ignorecase):
            return {"set": set(), "dead_end": True, "root_fail": True}
        frontier = {r}
        parts = parts[1:]
    for part in parts:
        new = set()
        if part == "..":
            for x in frontier:
                if par[x] is None:
                    dead = True
                else:
                    new.add(par[x])
        elif part in ("", "."):
            new = frontier
        elif part == "**":
            for x in frontier:
                new.update(subtree(ch, x))
        else:
            lit = not is_wild(part)
            for x in frontier:
                hit = False
                for c in ch[x]:
                    if wild_match(names[c], part, ignorecase):
                        new.add(c)
                        hit = True
                if lit and not hit:
                    dead = True
        frontier = new
    return {"set": frontier, "dead_end": dead, "root_fail": False}


def has_dotdot_after_name(pattern, sep):
    parts = split(pattern, sep)
    if pattern.startswith(sep):
        parts = parts[2:]
    seen = False
    for p in parts:
        if p == "..":
            if seen:
                return True
        elif p not in ("", ".", "**"):
            seen = True
    return False


def has_special(pattern, sep):
    parts = split(pattern, sep)
    return "**" in parts or ".." in parts


def abs_path(par, names, n, sep):
    comps = []
    while n is not None:
        comps.append(names[n])
        n = par[n]
    return sep + sep.join(reversed(comps))
