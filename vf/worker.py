"""Worker entry point: runs one shard of one property monitor in a fresh
interpreter with the repository under test first on sys.path.

    python -B worker.py --prop C05 --spec '<json>' --out <file>
"""
import faulthandler
import importlib
import json
import os
import sys
import traceback

HERE = os.path.dirname(os.path.abspath(__file__))
VERIF = os.path.dirname(HERE)


class Reach:
    """Which functions and lines of the library under test this worker executed (sys.monitoring, every
    location switched off after its first event, so the cost is one callback per function and line)."""

    def __init__(self, repo):
        self.prefix = os.path.join(repo, "anytree") + os.sep
        self.funcs = set()
        self.lines = {}
        self.on = False
        mon = getattr(sys, "monitoring", None)
        if mon is None or os.environ.get("VERIF_NO_REACH"):
            return
        try:
            mon.use_tool_id(mon.COVERAGE_ID, "vf-reach")
        except ValueError:
            return
        ev = mon.events
        mon.register_callback(mon.COVERAGE_ID, ev.PY_START, self.py_start)
        mon.register_callback(mon.COVERAGE_ID, ev.LINE, self.line)
        mon.set_events(mon.COVERAGE_ID, ev.PY_START | ev.LINE)
        self.on = True

    def py_start(self, code, offset):
        fn = code.co_filename
        if fn.startswith(self.prefix):
            self.funcs.add("%s:%s:%d" % (fn[len(self.prefix):], code.co_qualname, code.co_firstlineno))
        return sys.monitoring.DISABLE

    def line(self, code, lineno):
        fn = code.co_filename
        if fn.startswith(self.prefix):
            self.lines.setdefault(fn[len(self.prefix):], set()).add(lineno)
        return sys.monitoring.DISABLE

    def result(self):
        if not self.on:
            return None
        return {"funcs": sorted(self.funcs), "lines": {k: sorted(v) for k, v in self.lines.items()}}


def main(argv):
    import argparse

    ap = argparse.ArgumentParser()
    ap.add_argument("--prop", required=True)
    ap.add_argument("--spec", required=True)
    ap.add_argument("--out", required=True)
    a = ap.parse_args(argv)
    spec = json.loads(a.spec)
    repo = os.path.realpath(os.environ.get("VERIF_REPO", "/repo"))
    # the tree under test first, then the framework
    sys.path[:] = [repo, VERIF] + [p for p in sys.path if p not in ("", repo, VERIF, HERE)]
    faulthandler.enable()
    reach = Reach(repo)
    res = {"prop": a.prop, "shard": spec.get("shard", 0), "crash": None}
    try:
        from vf.common import Ctx, lib

        lib()
        mod = importlib.import_module("vf.props." + spec.get("module", a.prop.lower()))
        ctx = Ctx(a.prop, spec)
        if spec.get("shard", 0) % 4 == 3 and spec.get("replay") is None or (spec.get("replay") or {}).get("debug_logging"):
            # every fourth shard runs in a process whose root logger is at DEBUG (as under `pytest --log-level=DEBUG`)
            import logging

            logging.getLogger().setLevel(logging.DEBUG)
            logging.getLogger().addHandler(logging.NullHandler())
            ctx.count("process_with_debug_logging")
            ctx.debug_logging = True
        rl = spec.get("recursionlimit")
        if rl:
            sys.setrecursionlimit(int(rl))
        ctx.start_watchdog()
        try:
            if spec.get("replay") is not None:
                mod.replay(ctx, spec["replay"])
            else:
                mod.run(ctx)
        except BaseException as e:  # noqa: B902
            ctx.stop_watchdog()
            sys.setrecursionlimit(1000)
            if type(e).__name__ == "CaseTimeout":
                ctx.report_hang(may_abort=False)
            elif type(e).__name__ == "ShardAbort":
                ctx.count("shard_aborted_after_hangs")
            else:
                raise
        ctx.stop_watchdog()
        sys.setrecursionlimit(1000)
        res.update(ctx.result())
        # distinct hashes go to a side file (8 bytes each)
        import array

        arr = array.array("Q", ctx.distinct)
        with open(a.out + ".hashes", "wb") as fh:
            arr.tofile(fh)
    except BaseException as e:  # noqa: B902
        sys.setrecursionlimit(1000)
        res["crash"] = "%s: %s\n%s" % (type(e).__name__, e, traceback.format_exc()[-3000:])
        try:
            from vf.common import library_origin

            where = library_origin(e.__traceback__) if isinstance(e, Exception) else None
            if where is not None and "ctx" in locals():
                # the library raised where the monitor expected a result: that is an observation, not a harness failure
                ctx.violation("unexpected-exception/%s@%s" % (type(e).__name__, where[0]), "no-unexpected-exception", {"shard": spec.get("shard")},
                              expected="no exception from the library here", observed={"exception": "%s: %s" % (type(e).__name__, str(e)[:300]), "raised_in": "%s:%s (%s)" % where,
                                                                                       "traceback": traceback.format_exc()[-1500:]})
                res.update(ctx.result())
                res["crash"] = None
                import array

                with open(a.out + ".hashes", "wb") as fh:
                    array.array("Q", ctx.distinct).tofile(fh)
        except Exception:  # noqa: B902
            pass
    res["reach"] = reach.result()
    with open(a.out, "w") as fh:
        json.dump(res, fh, default=repr)
    return 0


if __name__ == "__main__":
    sys.exit(main(sys.argv[1:]))
