"""Shape and data generators.  Pure Python, no anytree import.

A *tree shape* is a parent array ``par`` in pre-order numbering: node 0 is the
root, ``par[i] < i`` and children of a node are ordered by their number.

A *forest state* over k labelled nodes is ``ch``: a tuple of k tuples, ``ch[i]``
being the ordered children of node i (roots are the nodes that are nobody's
child; roots are not ordered among themselves).
"""
import itertools


# ------------------------------------------------------------------ trees
def ordered_trees(n):
    """All ordered rooted trees with n nodes as pre-order parent arrays."""
    if n < 1:
        return

    def rec(par):
        i = len(par)
        if i == n:
            yield tuple(par)
            return
        # node i may hang under any node of the rightmost path of the tree so far
        p = i - 1
        path = []
        while p is not None:
            path.append(p)
            p = par[p]
        for p in path:
            par.append(p)
            yield from rec(par)
            par.pop()

    yield from rec([None])


def children_of(par):
    ch = [[] for _ in par]
    for i, p in enumerate(par):
        if p is not None:
            ch[p].append(i)
    return ch


def random_tree(rng, n, kind=None):
    """Random tree shape with n nodes (pre-order numbered parent array)."""
    kinds = ("uniform", "chain", "star", "caterpillar", "broom", "binary", "lastchild", "deep", "spinebush")
    kind = kind or rng.choice(kinds)
    if n == 1:
        return (None,), kind
    raw = [None]  # arbitrary numbering first
    if kind == "uniform":
        for i in range(1, n):
            raw.append(rng.randrange(i))
    elif kind == "chain":
        for i in range(1, n):
            raw.append(i - 1)
    elif kind == "star":
        for i in range(1, n):
            raw.append(0)
    elif kind == "caterpillar":
        spine = [0]
        for i in range(1, n):
            if rng.random() < 0.5:
                raw.append(spine[-1])
                spine.append(i)
            else:
                raw.append(rng.choice(spine))
    elif kind == "broom":
        h = max(1, n // 2)
        for i in range(1, n):
            raw.append(i - 1 if i <= h else h)
    elif kind == "binary":
        for i in range(1, n):
            raw.append((i - 1) // 2)
    elif kind == "lastchild":
        # "last child under a non-last parent under a last grandparent" patterns
        for i in range(1, n):
            raw.append(max(0, i - 1 - rng.randrange(3)))
    elif kind == "spinebush":
        # a long unary spine (depth beyond typical recursion/"fast path" thresholds) ending in a bushy subtree,
        # with a few side twigs along the spine
        d = max(1, min(n - 1, int(n * rng.uniform(0.5, 0.85))))
        for i in range(1, n):
            if i <= d:
                raw.append(i - 1)
            elif rng.random() < 0.75:
                raw.append(rng.randrange(d, i))  # inside the bush at the end of the spine
            else:
                raw.append(rng.randrange(0, d))  # a twig somewhere on the spine
    else:  # deep: mostly chain with occasional side branches
        for i in range(1, n):
            raw.append(i - 1 if rng.random() < 0.8 else rng.randrange(i))
    # shuffle sibling order, then renumber in pre-order
    ch = [[] for _ in range(n)]
    for i, p in enumerate(raw):
        if p is not None:
            ch[p].append(i)
    for c in ch:
        rng.shuffle(c)
    order = []
    stack = [0]
    while stack:
        x = stack.pop()
        order.append(x)
        stack.extend(reversed(ch[x]))
    new = {old: k for k, old in enumerate(order)}
    par = [None] * n
    for old, p in enumerate(raw):
        par[new[old]] = None if p is None else new[p]
    return tuple(par), kind


# ---------------------------------------------------------------- forests
_FOREST_CACHE = {}


def ordered_forests(k):
    """All labelled ordered forests over k nodes, as ``ch`` tuples.

    Counts: 1, 3, 19, 193, 2721 for k = 1..5."""
    if k in _FOREST_CACHE:
        return _FOREST_CACHE[k]
    out = []
    for par in itertools.product([None] + list(range(k)), repeat=k):
        ok = True
        for i in range(k):
            seen = 0
            p = par[i]
            while p is not None:
                if p == i or seen > k:
                    ok = False
                    break
                seen += 1
                p = par[p]
            if not ok:
                break
        if not ok:
            continue
        kids = [[j for j in range(k) if par[j] == i] for i in range(k)]
        for perm in itertools.product(*[list(itertools.permutations(c)) for c in kids]):
            out.append(tuple(perm))
    _FOREST_CACHE[k] = out
    return out


def random_forest(rng, k):
    """Random forest state over k nodes (reachable by the API like all of them)."""
    order = list(range(k))
    rng.shuffle(order)
    par = [None] * k
    for pos, i in enumerate(order):
        if pos and rng.random() < 0.7:
            par[i] = order[rng.randrange(pos)]
    ch = [[] for _ in range(k)]
    for i in order:
        if par[i] is not None:
            ch[par[i]].append(i)
    for c in ch:
        rng.shuffle(c)
    return tuple(tuple(c) for c in ch)


def parents_of(ch):
    par = [None] * len(ch)
    for p, cs in enumerate(ch):
        for c in cs:
            par[c] = p
    return par


def sequences(universe, maxlen):
    """All sequences (with repetition) over universe of length 0..maxlen."""
    for ln in range(maxlen + 1):
        yield from itertools.product(universe, repeat=ln)


def sequences_norep(universe, maxlen):
    for ln in range(maxlen + 1):
        yield from itertools.permutations(universe, ln)


def subsets(n):
    for mask in range(1 << n):
        yield frozenset(i for i in range(n) if mask >> i & 1)


# ------------------------------------------------------------------ names
HOSTILE_CHARS = ".+[](){}^$|\\*?\"' -_:;<>#%&=~`,!@/"
PLAIN_CHARS = "abcdeXYZ019"
# characters on which upper/lower/casefold/re.IGNORECASE agree pairwise
CASE_PAIRS = "aAbBzZéÉжЖ"
# incl. combining marks (Unicode normalisation would merge them); NOT U+212B / U+2126 and the like, whose upper/lower/
# swapcase mappings disagree with each other (names are also used in case-insensitive resolver checks)
NONASCII = "éÉжЖü中\U0001f600\u0301\u030a"


def random_name(rng, sep="/", hostile=True, maxlen=5, forbid=("", ".", "..")):
    """A node name that never contains the class separator."""
    while True:
        ln = rng.randint(1, maxlen)
        pool = PLAIN_CHARS
        r = rng.random()
        if hostile and r < 0.5:
            pool = PLAIN_CHARS + HOSTILE_CHARS
        elif hostile and r < 0.7:
            pool = PLAIN_CHARS + NONASCII
        s = "".join(rng.choice(pool) for _ in range(ln))
        if sep and any(c in s for c in sep):
            continue
        if s in forbid:
            continue
        return s


def unique_sibling_names(rng, ch_lists, sep="/", hostile=True, ignorecase=False, wild=False):
    """Assign names so that the children of every node (and nothing else) are
    pairwise distinct; with ignorecase also distinct after upper()."""
    n = len(ch_lists)
    names = [None] * n

    def key(s):
        return s.upper() if ignorecase else s

    groups = [list(c) for c in ch_lists]
    allnodes = set(range(n))
    for c in ch_lists:
        allnodes -= set(c)
    groups.append(sorted(allnodes))  # the roots
    small = rng.random() < 0.5  # small alphabets make cousins share names
    for grp in groups:
        used = set()
        for i in grp:
            for _ in range(200):
                if small:
                    s = rng.choice(["a", "b", "A", "B", "ab", "a.b", "a*", "x", "sub0", "sub1", "a+", "[a]", "(a)"])
                    if any(c in s for c in sep):
                        continue
                    if not wild and ("*" in s or "?" in s):
                        continue
                else:
                    s = random_name(rng, sep, hostile)
                    if not wild and ("*" in s or "?" in s):
                        continue
                if key(s) not in used:
                    break
            else:
                s = "n%d" % i
            used.add(key(s))
            names[i] = s
    return names


# ------------------------------------------------------------- attributes
def random_json_value(rng, depth=0):
    r = rng.random()
    if depth > 2:
        r *= 0.6
    if r < 0.08:
        return None
    if r < 0.16:
        return rng.random() < 0.5
    if r < 0.30:
        return rng.choice([0, 1, -1, 2**63, -(2**64) - 1, 10**30, rng.randrange(-1000, 1000)])
    if r < 0.42:
        return rng.choice([0.0, -0.0, 1.5, 1e308, 5e-324, -2.5e-10, 0.1, 1 / 3, rng.uniform(-1e6, 1e6)])
    if r < 0.6:
        pool = "ab \"\\/\n\t\r\x00\x1f\x7f\u00e9\u0436\u2028\u2029\x85\u00a0\ufeff\U0001f600e\u0301\u212b\u2126A\u030a"  # incl. the line separators str.splitlines knows
        return "".join(rng.choice(pool) for _ in range(rng.randint(0, 6)))
    if r < 0.8:
        return [random_json_value(rng, depth + 1) for _ in range(rng.randint(0, 3))]
    return {random_key(rng): random_json_value(rng, depth + 1) for _ in range(rng.randint(0, 3))}


def random_key(rng, identifiers_only=False):
    # incl. names that are also read-only properties of the node mixins (the stored value lives in the instance dict)
    pool = ["a", "b", "id", "foo", "bar", "x1", "_p", "__q", "Name", "été", "value", "k9", "lng", "zz", "size", "height", "depth", "is_leaf", "leaves",
            # near misses of the reserved names
            "child", "e", "ren", "childrens", "Children", "parents", "par"]
    if not identifiers_only:
        pool = pool + ["with space", "1abc", "a-b", "", "中", "class", "a.b", 'q"uote']
    return rng.choice(pool)


FORBIDDEN_KEYS = ("parent", "children", "self", "name", "target", "data")


def random_attrs(rng, json_only=True, identifiers_only=False, maxkeys=6):
    out = {}
    for _ in range(rng.randint(0, maxkeys)):
        k = random_key(rng, identifiers_only)
        if k in FORBIDDEN_KEYS or k.startswith("_NodeMixin") or k.startswith("_LightNodeMixin"):
            continue
        if json_only:
            out[k] = random_json_value(rng)
        else:
            r = rng.random()
            if r < 0.6:
                out[k] = random_json_value(rng)
            elif r < 0.7:
                out[k] = (1, "t", (2,))
            elif r < 0.8:
                out[k] = frozenset([1, 2])
            elif r < 0.9:
                out[k] = b"bytes\x00"
            else:
                out[k] = complex(1, -2)
    return out
